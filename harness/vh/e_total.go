package main

// Engine "total": C06 - Unmarshal is total.  Hostile inputs; monitors: recover
// (panic), allocation meter, progress file for attributing fatal errors / hangs
// (the parent runs this process under a watchdog), depth probes against the
// reference.

import (
	"bytes"
	"encoding/binary"
	"fmt"
	"math/rand"
	"os"
	"reflect"
	"runtime/debug"
	"runtime/metrics"
	"strconv"
	"strings"
	"syscall"

	"github.com/cosmos/cosmos-proto/zzverif/glue"
	"google.golang.org/protobuf/encoding/prototext"
	"google.golang.org/protobuf/encoding/protowire"
	"google.golang.org/protobuf/proto"
	"google.golang.org/protobuf/reflect/protoreflect"
	"google.golang.org/protobuf/runtime/protoiface"
	"google.golang.org/protobuf/types/dynamicpb"
)

func init() {
	engines["total"] = engineTotal
	engines["depth"] = engineDepth
}

// ---- progress file: [0:8] type index, [8:16] case index, [16:24] phase
var progress []byte

func openProgress() {
	if *flagProg == "" {
		progress = make([]byte, 64)
		return
	}
	f, err := os.OpenFile(*flagProg, os.O_RDWR|os.O_CREATE, 0o644)
	if err != nil {
		panic(err)
	}
	f.Truncate(64)
	b, err := syscall.Mmap(int(f.Fd()), 0, 64, syscall.PROT_READ|syscall.PROT_WRITE, syscall.MAP_SHARED)
	if err != nil {
		panic(err)
	}
	progress = b
}

func setProgress(ti, ci, phase int) {
	binary.LittleEndian.PutUint64(progress[0:], uint64(ti))
	binary.LittleEndian.PutUint64(progress[8:], uint64(ci))
	binary.LittleEndian.PutUint64(progress[16:], uint64(phase))
}

var allocSample = []metrics.Sample{{Name: "/gc/heap/allocs:bytes"}}

func allocBytes() uint64 {
	metrics.Read(allocSample)
	return allocSample[0].Value.Uint64()
}

// maxStructSize: largest struct among the message types reachable from d.
func maxStructSize(zero proto.Message) uintptr {
	seen := map[reflect.Type]bool{}
	var max uintptr
	var walk func(t reflect.Type)
	walk = func(t reflect.Type) {
		for t.Kind() == reflect.Ptr || t.Kind() == reflect.Slice {
			t = t.Elem()
		}
		if t.Kind() == reflect.Map {
			walk(t.Elem())
			return
		}
		if t.Kind() != reflect.Struct || seen[t] {
			return
		}
		seen[t] = true
		if t.Size() > max {
			max = t.Size()
		}
		for i := 0; i < t.NumField(); i++ {
			ft := t.Field(i).Type
			if ft.Kind() == reflect.Interface {
				continue
			}
			walk(ft)
		}
	}
	walk(reflect.TypeOf(zero))
	return max
}

var advLens = func() []uint64 {
	var o []uint64
	for _, base := range []uint64{1 << 31, 1 << 32, 1 << 63, 0, 1 << 62, 1 << 56} { // 0 => wraps to 2^64-k
		for k := uint64(0); k <= 24; k++ {
			o = append(o, base-k, base+k)
		}
	}
	for k := uint64(0); k <= 24; k++ {
		o = append(o, (1<<63-1)-k)
	}
	o = append(o, 127, 128, 255, 256, 16383, 16384, 1<<21, 1<<28, 1<<35)
	return o
}()

type totalGen struct {
	r *rand.Rand
	g *Gen
	w *WireGen
	d MD
}

func (t *totalGen) valid() []byte {
	v := t.g.Msg(t.d, 0)
	return t.w.Stream(v, 0)
}

func (t *totalGen) anyNumber() uint64 {
	fs := t.d.Fields()
	if fs.Len() > 0 && t.r.Intn(4) != 0 {
		return uint64(fs.Get(t.r.Intn(fs.Len())).Number())
	}
	return t.g.unknownNumber(t.d)
}

func (t *totalGen) input(class int) ([]byte, string) {
	r := t.r
	switch class {
	case 0:
		b := make([]byte, r.Intn(64))
		r.Read(b)
		return b, "random-bytes"
	case 1:
		b := append([]byte{}, t.valid()...)
		for n := 1 + r.Intn(4); n > 0 && len(b) > 0; n-- {
			i := r.Intn(len(b))
			switch r.Intn(6) {
			case 0:
				b[i] ^= 1 << uint(r.Intn(8))
			case 1:
				b[i] = []byte{0xff, 0x80, 0x00, 0x7f, 0x01}[r.Intn(5)]
			case 2:
				b = append(b[:i], b[i+1:]...)
			case 3:
				b = append(b[:i], append([]byte{byte(r.Intn(256))}, b[i:]...)...)
			case 4:
				b[i] |= 0x80
			case 5:
				b[i] = byte(r.Intn(256))
			}
		}
		return b, "mutated-valid"
	case 2:
		b := t.valid()
		if len(b) > 0 {
			b = b[:r.Intn(len(b))]
		}
		return b, "truncated"
	case 3:
		// a length-delimited (or any) record whose length varint is adversarial, after some valid prefix
		var b []byte
		if r.Intn(2) == 0 {
			b = append(b, t.valid()...)
			if len(b) > 40 {
				b = b[:r.Intn(40)]
				// cut at a random place is fine: often errors earlier; also use record-aligned prefixes below
			}
		}
		if r.Intn(2) == 0 {
			b = b[:0]
			// record aligned prefix: k small varint records of an unknown number
			for k := r.Intn(4); k > 0; k-- {
				b = appendVarint(b, t.g.unknownNumber(t.d)<<3)
				b = appendVarint(b, uint64(r.Intn(300)))
			}
		}
		num := t.anyNumber()
		wt := uint64(2)
		if r.Intn(8) == 0 {
			wt = uint64(r.Intn(8))
		}
		b = appendVarint(b, num<<3|wt)
		L := advLens[r.Intn(len(advLens))]
		if r.Intn(3) == 0 {
			// length equal to minus (bytes consumed so far of this record + j)
			L = uint64(-int64(varintLen(num<<3|wt) + 10 - r.Intn(4)))
		}
		b = appendVarintN(b, L, 10)
		tail := make([]byte, r.Intn(12))
		r.Read(tail)
		return append(b, tail...), "adversarial-length"
	case 4:
		// partial map entries / nested adversarial lengths for a map or message field
		fs := t.d.Fields()
		var cands []FD
		for i := 0; i < fs.Len(); i++ {
			if fs.Get(i).Kind() == protoreflect.MessageKind {
				cands = append(cands, fs.Get(i))
			}
		}
		if len(cands) == 0 {
			return t.input(5)
		}
		fd := cands[r.Intn(len(cands))]
		var ent []byte
		if fd.IsMap() {
			k := t.w.single(fd.MapKey(), t.g.Scalar(fd.MapKey()), 0)
			v := t.w.single(fd.MapValue(), t.g.val(fd.MapValue(), 2), 0)
			switch r.Intn(8) {
			case 0:
				ent = k
			case 1:
				ent = v
			case 2:
				ent = nil
			case 3:
				ent = t.g.UnknownRecord(fd.Message(), 0)
			case 4: // key with adversarial length for string keys / value
				ent = appendVarint(nil, uint64(1+r.Intn(2))<<3|2)
				ent = appendVarintN(ent, advLens[r.Intn(len(advLens))], 10)
			case 5:
				ent = append(k, v[:r.Intn(len(v)+1)]...)
			case 6:
				ent = append(append([]byte{}, v...), k[:r.Intn(len(k)+1)]...)
			case 7:
				ent = append(k, appendVarint(nil, 2<<3|uint64(r.Intn(6)))...)
			}
		} else {
			ent = t.valid()
			if len(ent) > 0 && r.Intn(2) == 0 {
				ent = ent[:r.Intn(len(ent))]
			}
			if len(ent) > 30 {
				ent = ent[:30]
			}
		}
		b := appendVarint(nil, uint64(fd.Number())<<3|2)
		ln := uint64(len(ent))
		if r.Intn(4) == 0 {
			ln += uint64(r.Intn(3)) - 1
		}
		b = appendVarint(b, ln)
		return append(b, ent...), "partial-map-entry-or-nested"
	case 5:
		// random records with schema numbers and arbitrary wire types / payloads
		var b []byte
		for n := 1 + r.Intn(5); n > 0; n-- {
			num := t.anyNumber()
			wt := uint64(r.Intn(6))
			b = appendVarint(b, num<<3|wt)
			switch wt {
			case 0:
				b = appendVarint(b, r.Uint64()>>uint(r.Intn(64)))
			case 1:
				x := make([]byte, 8)
				r.Read(x)
				b = append(b, x...)
			case 5:
				x := make([]byte, 4)
				r.Read(x)
				b = append(b, x...)
			case 2:
				x := make([]byte, r.Intn(10))
				r.Read(x)
				b = appendVarint(b, uint64(len(x)))
				b = append(b, x...)
			case 3:
				if r.Intn(2) == 0 {
					b = appendVarint(b, num<<3|4)
				}
			}
		}
		return b, "random-records"
	case 6:
		// over-long varints in tag / length / value positions
		pats := [][]byte{
			bytes.Repeat([]byte{0xff}, 9), bytes.Repeat([]byte{0xff}, 10), bytes.Repeat([]byte{0x80}, 10), bytes.Repeat([]byte{0x80}, 11),
			append(bytes.Repeat([]byte{0xff}, 9), 0x7f), append(bytes.Repeat([]byte{0xff}, 9), 0x01), append(bytes.Repeat([]byte{0x80}, 9), 0x02),
			append(bytes.Repeat([]byte{0xff}, 10), 0x01), append(bytes.Repeat([]byte{0x80}, 20), 0x00),
		}
		p := pats[r.Intn(len(pats))]
		var b []byte
		switch r.Intn(3) {
		case 0:
			b = append(b, p...)
		case 1:
			b = appendVarint(b, t.anyNumber()<<3|0)
			b = append(b, p...)
		case 2:
			b = appendVarint(b, t.anyNumber()<<3|2)
			b = append(b, p...)
		}
		tail := make([]byte, r.Intn(6))
		r.Read(tail)
		return append(b, tail...), "overlong-varint"
	default:
		// groups: balanced, unbalanced, nested deep (1000) for known and unknown numbers
		var b []byte
		num := t.anyNumber()
		switch r.Intn(5) {
		case 0:
			b = appendVarint(b, num<<3|3)
		case 1:
			b = appendVarint(b, num<<3|4)
		case 2:
			for i := 0; i < 1000; i++ {
				b = appendVarint(b, num<<3|3)
			}
			if r.Intn(2) == 0 {
				for i := 0; i < 1000; i++ {
					b = appendVarint(b, num<<3|4)
				}
			}
		case 3:
			b = appendVarint(b, num<<3|3)
			b = append(b, t.g.UnknownRecord(emptyMD{t.d}, 1)...)
			b = appendVarint(b, (num+1)<<3|4)
		case 4:
			b = appendVarint(b, num<<3|3)
			b = appendVarint(b, 0<<3|0) // field number zero inside
			b = appendVarint(b, num<<3|4)
		}
		return b, "groups"
	}
}

const nTotalClasses = 8

func parseArg(name string) (string, bool) {
	for _, kv := range strings.Split(*flagArg, ",") {
		if strings.HasPrefix(kv, name+"=") {
			return kv[len(name)+1:], true
		}
	}
	return "", false
}

func engineTotal(rep *Report) {
	openProgress()
	subs := allSubjects()
	n := perType(3000, 150000)
	only := onlyIndex()
	skip := map[string]bool{}
	if s, ok := parseArg("skip"); ok {
		for _, x := range strings.Split(s, ";") {
			skip[x] = true
		}
	}
	for ti, s := range subs {
		tn := string(s.FullName)
		rep.Types = append(rep.Types, tn)
		d := s.Zero.ProtoReflect().Descriptor()
		S := maxStructSize(s.Zero)
		for i := 0; i < n; i++ {
			if only < 0 && !mineCase(ti, i) {
				continue
			}
			if only >= 0 && i != only {
				continue
			}
			if skip[tn+":"+strconv.Itoa(i)] {
				continue
			}
			setProgress(ti, i, 0)
			guardCase(rep, "C06", "total", tn, i, func() { totalCase(rep, s, d, i, uint64(S)) })
		}
	}
	setProgress(-1, -1, 0)
}

func totalInput(d MD, tn string, idx int) ([]byte, string) {
	seed := caseSeed(*flagSeed, tn, idx, "total")
	o := defaultGen()
	o.MaxElems = 3
	o.LongValues = false
	o.MaxDepth = 3
	g := NewGen(seed, o)
	r := rand.New(rand.NewSource(seed ^ 0x1234))
	t := &totalGen{r: r, g: g, d: d, w: &WireGen{R: r, G: g, Unknown: true, NonMin: true, Muts: map[string]int{}}}
	if idx%64 == 63 {
		if b, kind, ok := t.manySmallRecords(idx / 64); ok {
			return b, "many-small-records-of-one-field(" + kind + ")"
		}
	}
	return t.input(idx % nTotalClasses)
}

func totalCase(rep *Report, s *glue.Subject, d MD, idx int, S uint64) {
	tn := string(s.FullName)
	in, class := totalInput(d, tn, idx)
	rc := replayCase{Engine: "total", Type: tn, Seed: *flagSeed, Index: idx, Value: hx(in), Note: class}
	rep.Eval("C06", append([]byte(tn), in...), len(in) > 0)
	rep.Count("C06", "class/"+class, 1)
	if idx < nTotalClasses {
		rep.Sample("C06", map[string]string{"type": tn, "class": class, "input_hex": hx(in)})
	}
	bound := uint64(len(in))*(S+512) + 1<<20
	switch class {
	case "many-small-records-of-one-field(scalar)", "many-small-records-of-one-field(map)":
		// thousands of minimal records: a linear decoder allocates a small multiple of the input (amortised slice
		// growth, map buckets, short strings); measured 4..25 bytes per input byte on the unchanged tree
		bound = 96*uint64(len(in)) + 1<<20
	case "many-small-records-of-one-field(message)":
		bound = uint64(len(in))/2*(S+128) + 96*uint64(len(in)) + 1<<20 // one element struct per two-byte record
	}
	variant := idx / nTotalClasses % 4
	m := newOf(s.Zero)
	var err error
	a0 := allocBytes()
	pan, pmsg := safely(func() {
		switch variant {
		case 0:
			err = proto.Unmarshal(in, m)
		case 1:
			err = proto.UnmarshalOptions{Merge: true, DiscardUnknown: true}.Unmarshal(in, m)
		case 2:
			err = proto.UnmarshalOptions{AllowPartial: true}.Unmarshal(in, m)
		case 3:
			// direct call of the generated method, zero Depth
			pm := m.ProtoReflect().ProtoMethods()
			_, err = pm.Unmarshal(protoiface.UnmarshalInput{Message: m.ProtoReflect(), Buf: in})
		}
	})
	a1 := allocBytes()
	if pan {
		rep.Violate("C06", "total/unmarshal-panic/"+class, tn, fmt.Sprintf("Unmarshal(variant %d) panics on %d-byte input %s: %s", variant, len(in), hx(in), pmsg), rc)
		return
	}
	used := a1 - a0
	if used > bound {
		// the meter is process-wide (other goroutines of the harness and the runtime's batched accounting add
		// noise of about a megabyte now and then): an excess counts only if it repeats on two more decodes of the
		// same input into fresh messages
		// (only excesses of noise size are measured again: a decode that allocates tens of megabytes is not noise)
		for again := 0; again < 2 && used > bound && used-bound < 4<<20; again++ {
			m2 := newOf(s.Zero)
			b0 := allocBytes()
			safely(func() { _ = proto.UnmarshalOptions{AllowPartial: true}.Unmarshal(in, m2) })
			if d := allocBytes() - b0; d < used {
				used = d
			}
			rep.Count("C06", "allocation-remeasured", 1)
		}
	}
	if used > bound {
		rep.Violate("C06", "total/allocation/"+class, tn, fmt.Sprintf("Unmarshal of %d bytes allocated %d bytes (bound %d; smallest of three measurements)", len(in), used, bound), rc)
		// give the memory back at once: many such cases in a row would otherwise push the process over its memory
		// guard before the report is written
		m = nil
		debug.FreeOSMemory()
		return
	}
	if err != nil {
		rep.Count("C06", "rejected", 1)
		return
	}
	rep.Count("C06", "accepted", 1)
	setProgress(-2, idx, 1)
	// an accepted message can be sized, marshalled, compared, cloned and ranged over
	pan, pmsg = safely(func() {
		// AllowPartial: a message accepted with AllowPartial may lack required fields of embedded proto2 messages
		ap := proto.MarshalOptions{AllowPartial: true}
		sz := ap.Size(m)
		b, e := ap.Marshal(m)
		if e == nil && len(b) != sz {
			panic(fmt.Sprintf("Size %d != len(Marshal) %d", sz, len(b)))
		}
		if _, e := (proto.MarshalOptions{AllowPartial: true, Deterministic: true}).Marshal(m); e != nil && !strings.Contains(e.Error(), "UTF-8") {
			panic("deterministic marshal error: " + e.Error())
		}
		c := proto.Clone(m)
		_ = proto.Equal(m, c)
		_ = proto.Equal(c, m)
		_ = ReflToIR(m.ProtoReflect())
		_ = StructToIR(m)
		// compared with a message that differs (only) in its unknown fields: a well-formed unknown record of the same
		// total length, so that the library really parses both unknown sets
		for _, um := range withUnknown(m.ProtoReflect(), 0) {
			u := um.GetUnknown()
			if len(u) < 2 {
				continue
			}
			// tag of field 15 (one byte) + varint padded to the remaining length, or a bytes record for longer sets
			var y []byte
			if len(u) <= 11 {
				y = appendVarintN([]byte{0x78}, 1, len(u)-1)
			} else {
				y = []byte{0x7a}
				pl := len(u) - 2
				if pl > 127 {
					pl = len(u) - 3
				}
				y = protowire.AppendVarint(y, uint64(pl))
				y = append(y, make([]byte, pl)...)
			}
			if len(y) != len(u) {
				continue
			}
			o := um.New()
			o.SetUnknown(y)
			_ = proto.Equal(um.Interface(), o.Interface())
			_ = proto.Equal(o.Interface(), um.Interface())
		}
		// rendered as text (unknown fields are printed by the generated String methods)
		_ = prototext.MarshalOptions{AllowPartial: true, EmitUnknown: true}.Format(m)
	})
	if pan {
		rep.Violate("C06", "total/accepted-message-unusable/"+class, tn, fmt.Sprintf("input %s accepted, then Size/Marshal/Equal/Clone/Range: %s", hx(in), pmsg), rc)
	}
}

// ---------------------------------------------------------------------------
// depth probes

type recPath struct {
	fds []FD // cycle of message fields leading from T back to T
}

// findCycle finds a shortest cycle of message-typed fields from d back to d.
func findCycles(d MD) [][]FD {
	var out [][]FD
	type node struct {
		d    MD
		path []FD
	}
	fs := d.Fields()
	for i := 0; i < fs.Len(); i++ {
		start := fs.Get(i)
		if start.Kind() != protoreflect.MessageKind {
			continue
		}
		// BFS from start's message back to d
		target := func(fd FD) MD {
			if fd.IsMap() {
				if fd.MapValue().Kind() != protoreflect.MessageKind {
					return nil
				}
				return fd.MapValue().Message()
			}
			return fd.Message()
		}
		t0 := target(start)
		if t0 == nil {
			continue
		}
		q := []node{{t0, []FD{start}}}
		seen := map[protoreflect.FullName]bool{}
		for len(q) > 0 && len(q) < 5000 {
			n := q[0]
			q = q[1:]
			if n.d.FullName() == d.FullName() {
				out = append(out, n.path)
				break
			}
			if seen[n.d.FullName()] || len(n.path) > 4 {
				continue
			}
			seen[n.d.FullName()] = true
			nf := n.d.Fields()
			for j := 0; j < nf.Len(); j++ {
				fd := nf.Get(j)
				if fd.Kind() != protoreflect.MessageKind {
					continue
				}
				if t := target(fd); t != nil {
					q = append(q, node{t, append(append([]FD{}, n.path...), fd)})
				}
			}
		}
	}
	return out
}

// nestChain builds `levels` repetitions of the field cycle around an empty message.
func nestChain(cycle []FD, levels int) []byte {
	// per level wrappers, innermost last
	type wrap struct {
		pre []byte // bytes before the inner length varint
		mid []byte // for maps: entry tag bytes between outer len and inner len
	}
	var seq []FD
	for i := 0; i < levels; i++ {
		seq = append(seq, cycle[i%len(cycle)])
	}
	// compute from inside out
	inner := 0
	type hdr struct{ b []byte }
	hdrs := make([][]byte, len(seq))
	for i := len(seq) - 1; i >= 0; i-- {
		fd := seq[i]
		var h []byte
		if fd.IsMap() {
			// field tag, len(entry), value tag(2), len(inner)
			ent := appendVarint(appendVarint(nil, 2<<3|2), uint64(inner))
			h = appendVarint(nil, uint64(fd.Number())<<3|2)
			h = appendVarint(h, uint64(len(ent)+inner))
			h = append(h, ent...)
		} else {
			h = appendVarint(nil, uint64(fd.Number())<<3|2)
			h = appendVarint(h, uint64(inner))
		}
		hdrs[i] = h
		inner += len(h)
	}
	out := make([]byte, 0, inner)
	for _, h := range hdrs {
		out = append(out, h...)
	}
	return out
}

func engineDepth(rep *Report) {
	openProgress()
	subs := subjectsForShard()
	depths := []int{100, 5000, 11000, 20000, 100000}
	if d, ok := parseArg("depths"); ok {
		depths = nil
		for _, x := range strings.Split(d, ";") {
			n, _ := strconv.Atoi(x)
			depths = append(depths, n)
		}
	}
	pi := 0
	for ti, s := range subs {
		tn := string(s.FullName)
		d := s.Zero.ProtoReflect().Descriptor()
		// map values claiming bytes behind their entry (self-recursive map values: each level would be decoded twice)
		fsm := d.Fields()
		for i := 0; i < fsm.Len(); i++ {
			fd := fsm.Get(i)
			if !fd.IsMap() || fd.MapValue().Kind() != protoreflect.MessageKind || fd.MapValue().Message().FullName() != d.FullName() {
				continue
			}
			for _, k := range []int{12, 48} {
				if depths[0] != 100 {
					break // once per run (first depth pass)
				}
				var rest []byte
				for j := 0; j < k; j++ {
					ent := appendVarint(appendVarint(nil, 2<<3|2), uint64(len(rest)))
					rec := appendVarint(appendVarint(nil, uint64(fd.Number())<<3|2), uint64(len(ent)))
					rest = append(append(rec, ent...), rest...)
				}
				setProgress(ti, 900000000+k, 4)
				rep.Eval("C06", []byte(fmt.Sprintf("map-overrun|%s|%d", tn, k)), true)
				rep.Count("C06", "map-value-overrun-chains", 1)
				m := newOf(s.Zero)
				pan, pmsg := safely(func() { _ = proto.Unmarshal(rest, m) })
				if pan {
					rep.Violate("C06", "total/map-value-overrun/panic", tn, pmsg, replayCase{Engine: "depth", Type: tn, Seed: *flagSeed, Value: hx(rest)})
				}
			}
		}
		cycles := findCycles(d)
		if len(cycles) == 0 {
			continue
		}
		rep.Types = append(rep.Types, tn)
		for ci, cyc := range cycles {
			var names []string
			for _, fd := range cyc {
				names = append(names, string(fd.Name())+"("+shapeOf(fd)+")")
			}
			for _, depth := range depths {
				pi++
				setProgress(ti, ci*1000000000+depth, 2)
				in := nestChain(cyc, depth)
				rc := replayCase{Engine: "depth", Type: tn, Seed: *flagSeed, Index: ci, Note: fmt.Sprintf("depth=%d path=%s bytes=%d", depth, strings.Join(names, "/"), len(in))}
				rep.Eval("C06", []byte(fmt.Sprintf("depth|%s|%d|%d", tn, ci, depth)), true)
				rep.Count("C06", fmt.Sprintf("depth-probe/%d", depth), 1)
				if pi <= 3 {
					rep.Sample("C06", map[string]interface{}{"type": tn, "class": "depth-chain", "depth": depth, "path": names, "bytes": len(in)})
				}
				refErr := proto.Unmarshal(in, dynamicpb.NewMessage(d))
				m := newOf(s.Zero)
				var err error
				pan, pmsg := safely(func() { err = proto.Unmarshal(in, m) })
				if pan {
					rep.Violate("C06", "total/depth/panic", tn, fmt.Sprintf("depth %d via %s: %s", depth, strings.Join(names, "/"), pmsg), rc)
					continue
				}
				switch {
				case refErr != nil && err == nil:
					rep.Violate("C06", "total/depth/limit-not-enforced", tn, fmt.Sprintf("nesting depth %d via %s (%d bytes): reference rejects (%v), generated Unmarshal accepts", depth, strings.Join(names, "/"), len(in), refErr), rc)
				case refErr == nil && err != nil:
					rep.Violate("C06", "total/depth/rejects-legal-depth", tn, fmt.Sprintf("nesting depth %d via %s: reference accepts, generated Unmarshal: %v", depth, strings.Join(names, "/"), err), rc)
				}
				if err == nil {
					pan, pmsg = safely(func() {
						_ = proto.Size(m)
						if depth <= 1000 { // the generated marshaller is quadratic in the nesting depth (sizes subtrees again per level)
							if _, e := proto.Marshal(m); e != nil {
								panic(e)
							}
						}
					})
					if pan {
						rep.Violate("C06", "total/depth/accepted-unusable", tn, fmt.Sprintf("depth %d accepted then Size/Marshal: %s", depth, pmsg), rc)
					}
				}
			}
			// an explicit (small) RecursionLimit is honoured exactly as by the reference, on the library entry point
			// and through the generated method with the matching Depth
			if depths[0] == 100 && ci == 0 {
				for _, limit := range []int{1, 2, 3, 5, 9} {
					for _, depth := range []int{0, 1, 2, 3, 4, 5, 6, 8, 9, 10, 11} {
						in := nestChain(cyc, depth)
						o := proto.UnmarshalOptions{RecursionLimit: limit}
						refErr := o.Unmarshal(in, dynamicpb.NewMessage(d))
						rep.Eval("C06", []byte(fmt.Sprintf("limit|%s|%d|%d", tn, limit, depth)), true)
						rep.Count("C06", "recursion-limit-probes", 1)
						for entry := 0; entry < 2; entry++ {
							m := newOf(s.Zero)
							var err error
							pan, pmsg := safely(func() {
								if entry == 0 {
									err = o.Unmarshal(in, m)
								} else {
									_, err = m.ProtoReflect().ProtoMethods().Unmarshal(protoiface.UnmarshalInput{Message: m.ProtoReflect(), Buf: in, Depth: limit})
								}
							})
							what := []string{"UnmarshalOptions{RecursionLimit}", "ProtoMethods().Unmarshal(Depth)"}[entry]
							rc := replayCase{Engine: "depth", Type: tn, Seed: *flagSeed, Index: ci, Note: fmt.Sprintf("limit=%d depth=%d entry=%s", limit, depth, what)}
							switch {
							case pan:
								rep.Violate("C06", "total/depth/panic", tn, fmt.Sprintf("%s limit %d, nesting %d: %s", what, limit, depth, pmsg), rc)
							case (refErr == nil) != (err == nil):
								rep.Violate("C06", "total/depth/explicit-limit-differs", tn, fmt.Sprintf("%s with limit %d on a value nested %d levels via %s: generated err=%v, reference err=%v", what, limit, depth, strings.Join(names, "/"), err, refErr), rc)
							}
						}
					}
				}
			}
		}
	}
	setProgress(-1, -1, 0)
}

// manySmallRecords: thousands of minimal records of one repeated or map field (separate packed runs of one or two
// elements, single elements, tiny map entries): decoding must stay linear in the input (a decoder that regrows the
// whole list per record allocates quadratically).
func (t *totalGen) manySmallRecords(turn int) ([]byte, string, bool) {
	r := t.r
	var cands []FD
	fs := t.d.Fields()
	for i := 0; i < fs.Len(); i++ {
		if fd := fs.Get(i); fd.IsList() || fd.IsMap() {
			cands = append(cands, fd)
		}
	}
	if len(cands) == 0 {
		return nil, "", false
	}
	fd := cands[turn%len(cands)] // every repeated / map field in turn
	kind := "scalar"
	if fd.IsMap() {
		kind = "map"
	} else if fd.Kind() == protoreflect.MessageKind || fd.Kind() == protoreflect.GroupKind {
		kind = "message"
	}
	elem := func(k protoreflect.Kind, i int) []byte { // payload of one element, without tag
		switch wireTypeOfKind(k) {
		case protowire.VarintType:
			return []byte{byte(i % 128)}
		case protowire.Fixed32Type:
			return []byte{byte(i), 0, 0, 0}
		case protowire.Fixed64Type:
			return []byte{byte(i), 0, 0, 0, 0, 0, 0, 0}
		}
		if k == protoreflect.MessageKind || k == protoreflect.GroupKind {
			return []byte{0}
		}
		return []byte{1, byte('a' + i%26)}
	}
	n := 8000 + r.Intn(4000)
	var b []byte
	tag2 := protowire.AppendTag(nil, fd.Number(), protowire.BytesType)
	for i := 0; i < n; i++ {
		switch {
		case fd.IsMap():
			kk, vk := fd.MapKey().Kind(), fd.MapValue().Kind()
			var ent []byte
			ent = protowire.AppendTag(ent, 1, wireTypeOfKind(kk))
			if wireTypeOfKind(kk) == protowire.VarintType {
				ent = protowire.AppendVarint(ent, uint64(i))
			} else if wireTypeOfKind(kk) == protowire.BytesType {
				ent = protowire.AppendString(ent, strconv.Itoa(i))
			} else {
				ent = append(ent, elem(kk, i)...)
			}
			if r.Intn(4) != 0 {
				ent = protowire.AppendTag(ent, 2, wireTypeOfKind(vk))
				ent = append(ent, elem(vk, i)...)
			}
			b = protowire.AppendBytes(append(b, tag2...), ent)
		case wireTypeOfKind(fd.Kind()) != protowire.BytesType:
			// first half: nothing but packed runs; second half: packed runs and single elements mixed
			if i < n/2 || r.Intn(3) != 0 { // a packed run of one or two elements
				run := elem(fd.Kind(), i)
				if r.Intn(2) == 0 {
					run = append(run, elem(fd.Kind(), i+1)...)
				}
				b = protowire.AppendBytes(append(b, tag2...), run)
			} else {
				b = protowire.AppendTag(b, fd.Number(), wireTypeOfKind(fd.Kind()))
				b = append(b, elem(fd.Kind(), i)...)
			}
		default:
			b = append(append(b, tag2...), elem(fd.Kind(), i)...)
		}
	}
	return b, kind, true
}

// withUnknown returns the messages in the tree of m (m included) that carry unknown bytes.
func withUnknown(m protoreflect.Message, depth int) []protoreflect.Message {
	var out []protoreflect.Message
	if depth > 50 || !m.IsValid() {
		return out
	}
	if len(m.GetUnknown()) > 0 {
		out = append(out, m)
	}
	m.Range(func(fd FD, v protoreflect.Value) bool {
		switch {
		case fd.IsList() && fd.Kind() == protoreflect.MessageKind:
			for i := 0; i < v.List().Len() && len(out) < 8; i++ {
				out = append(out, withUnknown(v.List().Get(i).Message(), depth+1)...)
			}
		case fd.IsMap() && fd.MapValue().Kind() == protoreflect.MessageKind:
			v.Map().Range(func(_ protoreflect.MapKey, mv protoreflect.Value) bool {
				out = append(out, withUnknown(mv.Message(), depth+1)...)
				return len(out) < 8
			})
		case !fd.IsList() && !fd.IsMap() && fd.Kind() == protoreflect.MessageKind:
			out = append(out, withUnknown(v.Message(), depth+1)...)
		}
		return len(out) < 8
	})
	return out
}
