package main

// Descriptors of the schemas exactly as they were given to the generator
// (written by schemagen next to the requests), used as ground truth by the api
// and libdiff engines.

import (
	"os"
	"path/filepath"
	"sync"

	"google.golang.org/protobuf/proto"
	"google.golang.org/protobuf/reflect/protodesc"
	"google.golang.org/protobuf/reflect/protoreflect"
	"google.golang.org/protobuf/reflect/protoregistry"
	"google.golang.org/protobuf/types/descriptorpb"
)

var (
	reqOnce  sync.Once
	reqFiles *protoregistry.Files
	reqProto = map[string]*descriptorpb.FileDescriptorProto{}
)

func loadRequestDescriptors() {
	reqOnce.Do(func() {
		reqFiles = new(protoregistry.Files)
		dir, ok := parseArg("fds")
		if !ok {
			return
		}
		names, _ := filepath.Glob(filepath.Join(dir, "*.fds"))
		for _, n := range names {
			b, err := os.ReadFile(n)
			if err != nil {
				continue
			}
			var set descriptorpb.FileDescriptorSet
			if proto.Unmarshal(b, &set) != nil {
				continue
			}
			for _, fp := range set.File {
				if _, dup := reqProto[fp.GetName()]; dup {
					continue
				}
				fd, err := protodesc.NewFile(fp, reqFiles)
				if err != nil {
					continue
				}
				if reqFiles.RegisterFile(fd) == nil {
					reqProto[fp.GetName()] = fp
				}
			}
		}
	})
}

// requestMessage returns the message descriptor built from the request, or nil
// (checked-in packages have no request).
func requestMessage(name protoreflect.FullName) protoreflect.MessageDescriptor {
	loadRequestDescriptors()
	d, err := reqFiles.FindDescriptorByName(name)
	if err != nil {
		return nil
	}
	md, _ := d.(protoreflect.MessageDescriptor)
	return md
}
