package main

// Engine "reflectexh": the bounded-exhaustive part of C08.  Every sequence of
// "letters" (short, self-contained reflection operations on the compact
// all-shapes message vf.small.Small) up to a length bound is executed in
// lock-step in the three worlds of the reflectdiff engine.

import (
	"fmt"
	"strings"

	"github.com/cosmos/cosmos-proto/zzverif/glue"
	"google.golang.org/protobuf/reflect/protoreflect"
)

func init() { engines["reflectexh"] = engineReflectExh }

type letter struct {
	name string
	f    func(c *rdCase)
}

func smallAlphabet(d MD) []letter {
	fd := func(n string) FD { return d.Fields().ByName(protoreflect.Name(n)) }
	sub := func(c *rdCase, o op, ni *hinfo) int { // step that creates a handle; returns its index
		c.step(o, ni)
		return len(c.info) - 1
	}
	hi := func(kind hkind, f FD) *hinfo {
		ni := &hinfo{kind: kind, parent: 0, via: f.Number(), fd: f}
		if kind == hMsg {
			ni.d = f.Message()
		}
		return ni
	}
	kindOf := func(f FD) hkind {
		switch {
		case f.IsList():
			return hList
		case f.IsMap():
			return hMap
		}
		return hMsg
	}
	var ls []letter
	add := func(name string, f func(c *rdCase)) { ls = append(ls, letter{name, f}) }
	fs := d.Fields()
	for i := 0; i < fs.Len(); i++ {
		f := fs.Get(i)
		add("Has("+string(f.Name())+")", func(c *rdCase) { c.step(op{code: opHas, fd: f}, nil) })
		add("Clear("+string(f.Name())+")", func(c *rdCase) { c.step(op{code: opClear, fd: f}, nil) })
		if isComposite(f) {
			add("Get("+string(f.Name())+")", func(c *rdCase) { c.step(op{code: opGet, fd: f}, hi(kindOf(f), f)) })
		} else {
			add("Get("+string(f.Name())+")", func(c *rdCase) { c.step(op{code: opGet, fd: f}, nil) })
		}
	}
	set := func(n string, v Val, label string) {
		f := fd(n)
		add("Set("+n+"="+label+")", func(c *rdCase) { c.step(op{code: opSetScalar, fd: f, v: v}, nil) })
	}
	set("i", Val{}, "0")
	set("i", Val{U: 5}, "5")
	set("b", Val{B: []byte{}}, "empty")
	set("b", Val{B: []byte("x")}, "x")
	set("oz", Val{}, "0")
	set("oz", Val{U: 3}, "3")
	set("os", Val{B: []byte{}}, "empty")
	set("os", Val{B: []byte("s")}, "s")
	set("f", Val{U: 0x8000000000000000}, "-0")
	set("f", Val{U: 0x3ff8000000000000}, "1.5")
	for _, n := range []string{"m", "om"} {
		f := fd(n)
		add("Set("+n+"=msg{a:7})", func(c *rdCase) { c.step(op{code: opSetNewMessage, fd: f, v: Val{U: 7}}, nil) })
		add("Set("+n+"=NewField)", func(c *rdCase) {
			ni := hi(hMsg, f)
			ni.detached = true
			h := sub(c, op{code: opNewField, fd: f}, ni)
			if !c.dead {
				c.step(op{code: opSetDetached, fd: f, h2: h}, nil)
			}
		})
		add("Mutable("+n+").Set(a=2)", func(c *rdCase) {
			h := sub(c, op{code: opMutable, fd: f}, hi(hMsg, f))
			if !c.dead {
				c.step(op{code: opSetScalar, h: h, fd: f.Message().Fields().ByName("a"), v: Val{U: 2}}, nil)
			}
		})
		add("Get("+n+").Set(a=3)", func(c *rdCase) { // write through Get: valid view or contractual panic
			h := sub(c, op{code: opGet, fd: f}, hi(hMsg, f))
			if !c.dead {
				c.step(op{code: opSetScalar, h: h, fd: f.Message().Fields().ByName("a"), v: Val{U: 3}}, nil)
			}
		})
	}
	li, lm, mi, mm := fd("li"), fd("lm"), fd("mi"), fd("mm")
	add("Mutable(li).Append(7)", func(c *rdCase) {
		h := sub(c, op{code: opMutable, fd: li}, hi(hList, li))
		if !c.dead {
			c.step(op{code: opLAppend, h: h, fd: li, v: Val{U: 7}}, nil)
		}
	})
	add("Mutable(li).Append(0)", func(c *rdCase) {
		h := sub(c, op{code: opMutable, fd: li}, hi(hList, li))
		if !c.dead {
			c.step(op{code: opLAppend, h: h, fd: li, v: Val{}}, nil)
		}
	})
	add("Mutable(li).Truncate(0)", func(c *rdCase) {
		h := sub(c, op{code: opMutable, fd: li}, hi(hList, li))
		if !c.dead {
			c.step(op{code: opLTruncate, h: h, fd: li, idx: 0}, nil)
		}
	})
	add("Get(li).Append(9)", func(c *rdCase) {
		h := sub(c, op{code: opGet, fd: li}, hi(hList, li))
		if !c.dead {
			c.step(op{code: opLAppend, h: h, fd: li, v: Val{U: 9}}, nil)
		}
	})
	add("Set(li=NewField+[4])", func(c *rdCase) {
		ni := hi(hList, li)
		ni.detached = true
		h := sub(c, op{code: opNewField, fd: li}, ni)
		if !c.dead {
			c.step(op{code: opLAppend, h: h, fd: li, v: Val{U: 4}}, nil)
		}
		if !c.dead {
			c.step(op{code: opSetDetached, fd: li, h2: h}, nil)
		}
	})
	add("Set(li=Get(li))", func(c *rdCase) { // storing a read-only empty list must panic; a valid one is stored
		h := sub(c, op{code: opGet, fd: li}, hi(hList, li))
		if !c.dead {
			c.step(op{code: opSetDetached, fd: li, h2: h}, nil)
		}
	})
	add("Mutable(lm).AppendMutable().Set(a=1)", func(c *rdCase) {
		h := sub(c, op{code: opMutable, fd: lm}, hi(hList, lm))
		if c.dead {
			return
		}
		e := sub(c, op{code: opLAppendMutable, h: h, fd: lm}, &hinfo{kind: hMsg, parent: h, d: lm.Message(), elem: "x"})
		if !c.dead {
			c.step(op{code: opSetScalar, h: e, fd: lm.Message().Fields().ByName("a"), v: Val{U: 1}}, nil)
		}
	})
	add("Mutable(lm).NewElement+Append", func(c *rdCase) {
		h := sub(c, op{code: opMutable, fd: lm}, hi(hList, lm))
		if !c.dead {
			c.step(op{code: opLNewElementAppend, h: h, fd: lm, v: Val{U: 7}}, nil)
		}
	})
	add("retained element across Truncate+AppendMutable", func(c *rdCase) {
		h := sub(c, op{code: opMutable, fd: lm}, hi(hList, lm))
		if c.dead {
			return
		}
		e := sub(c, op{code: opLAppendMutable, h: h, fd: lm}, &hinfo{kind: hMsg, parent: h, d: lm.Message(), elem: "x"})
		af := lm.Message().Fields().ByName("a")
		if !c.dead {
			c.step(op{code: opSetScalar, h: e, fd: af, v: Val{U: 1}}, nil)
		}
		if !c.dead {
			c.step(op{code: opLTruncate, h: h, fd: lm, idx: 0}, nil)
		}
		var e2 int
		if !c.dead {
			e2 = sub(c, op{code: opLAppendMutable, h: h, fd: lm}, &hinfo{kind: hMsg, parent: h, d: lm.Message(), elem: "y"})
		}
		if !c.dead {
			c.step(op{code: opGet, h: e, fd: af}, nil) // the element removed earlier keeps its content
		}
		if !c.dead {
			c.step(op{code: opSetScalar, h: e2, fd: af, v: Val{U: 9}}, nil)
		}
		if !c.dead {
			c.step(op{code: opGet, h: e, fd: af}, nil) // and does not alias the new element
		}
	})
	add("Mutable(lm).Truncate(0)", func(c *rdCase) {
		h := sub(c, op{code: opMutable, fd: lm}, hi(hList, lm))
		if !c.dead {
			c.step(op{code: opLTruncate, h: h, fd: lm, idx: 0}, nil)
		}
	})
	for _, kv := range []struct {
		k string
		v uint64
	}{{"k", 1}, {"", 0}} {
		kv := kv
		add(fmt.Sprintf("Mutable(mi).Set(%q,%d)", kv.k, kv.v), func(c *rdCase) {
			h := sub(c, op{code: opMutable, fd: mi}, hi(hMap, mi))
			if !c.dead {
				c.step(op{code: opMSet, h: h, fd: mi, key: Val{B: []byte(kv.k)}, v: Val{U: kv.v}}, nil)
			}
		})
	}
	add("retained map view: Set, Clear(last), Set again", func(c *rdCase) {
		h := sub(c, op{code: opMutable, fd: mi}, hi(hMap, mi))
		for _, st := range []op{
			{code: opMSet, h: h, fd: mi, key: Val{B: []byte("only")}, v: Val{U: 1}},
			{code: opMClear, h: h, fd: mi, key: Val{B: []byte("only")}},
			{code: opMLen, h: h, fd: mi},
			{code: opMSet, h: h, fd: mi, key: Val{B: []byte("again")}, v: Val{U: 2}},
			{code: opMGet, h: h, fd: mi, key: Val{B: []byte("again")}},
		} {
			if c.dead {
				return
			}
			c.step(st, nil)
		}
	})
	add("Mutable(mi).Clear(k)", func(c *rdCase) {
		h := sub(c, op{code: opMutable, fd: mi}, hi(hMap, mi))
		if !c.dead {
			c.step(op{code: opMClear, h: h, fd: mi, key: Val{B: []byte("k")}}, nil)
		}
	})
	add("Get(mi).Set(g,1)", func(c *rdCase) {
		h := sub(c, op{code: opGet, fd: mi}, hi(hMap, mi))
		if !c.dead {
			c.step(op{code: opMSet, h: h, fd: mi, key: Val{B: []byte("g")}, v: Val{U: 1}}, nil)
		}
	})
	add("Get(mi).Range+Has+Get", func(c *rdCase) {
		h := sub(c, op{code: opGet, fd: mi}, hi(hMap, mi))
		if !c.dead {
			c.step(op{code: opMRange, h: h, fd: mi}, nil)
		}
		if !c.dead {
			c.step(op{code: opMHas, h: h, fd: mi, key: Val{B: []byte("k")}}, nil)
		}
		if !c.dead {
			c.step(op{code: opMGet, h: h, fd: mi, key: Val{B: []byte("k")}}, nil)
		}
	})
	add("Mutable(mm).Mutable(1).Set(a=1)", func(c *rdCase) {
		h := sub(c, op{code: opMutable, fd: mm}, hi(hMap, mm))
		if c.dead {
			return
		}
		e := sub(c, op{code: opMMutable, h: h, fd: mm, key: Val{U: 1}}, &hinfo{kind: hMsg, parent: h, d: mm.MapValue().Message(), elem: "1"})
		if !c.dead {
			c.step(op{code: opSetScalar, h: e, fd: mm.MapValue().Message().Fields().ByName("a"), v: Val{U: 1}}, nil)
		}
	})
	add("Mutable(mm).NewValue+Set(0)", func(c *rdCase) {
		h := sub(c, op{code: opMutable, fd: mm}, hi(hMap, mm))
		if !c.dead {
			c.step(op{code: opMNewValueSet, h: h, fd: mm, key: Val{}, v: Val{U: 7}}, nil)
		}
	})
	add("Mutable(mm).Clear(1)", func(c *rdCase) {
		h := sub(c, op{code: opMutable, fd: mm}, hi(hMap, mm))
		if !c.dead {
			c.step(op{code: opMClear, h: h, fd: mm, key: Val{U: 1}}, nil)
		}
	})
	add("WhichOneof(o)", func(c *rdCase) { c.step(op{code: opWhichOneof, od: d.Oneofs().Get(0)}, nil) })
	add("Range", func(c *rdCase) { c.step(op{code: opRange}, nil) })
	add("GetUnknown", func(c *rdCase) { c.step(op{code: opGetUnknown}, nil) })
	add("SetUnknown(rec)", func(c *rdCase) { c.step(op{code: opSetUnknown, raw: []byte{0xc0, 0x3e, 0x05}}, nil) })
	add("SetUnknown(nil)", func(c *rdCase) { c.step(op{code: opSetUnknown, raw: nil}, nil) })
	return ls
}

func engineReflectExh(rep *Report) {
	s := glue.Lookup("vf.small.Small")
	if s == nil {
		rep.Notes = append(rep.Notes, "vf.small.Small not available (generation failed?)")
		return
	}
	d := s.Zero.ProtoReflect().Descriptor()
	alpha := smallAlphabet(d)
	maxLen := 3
	if *flagTier == "thorough" {
		maxLen = 4
	}
	if a, ok := parseArg("len"); ok {
		fmt.Sscan(a, &maxLen)
	}
	si, sn := shard()
	rep.Types = append(rep.Types, "vf.small.Small")
	n := len(alpha)
	idx := 0
	total := 0
	for L := 1; L <= maxLen; L++ {
		count := 1
		for i := 0; i < L; i++ {
			count *= n
		}
		for code := 0; code < count; code++ {
			idx++
			if idx%sn != si {
				continue
			}
			total++
			seq := make([]int, L)
			x := code
			for i := L - 1; i >= 0; i-- {
				seq[i] = x % n
				x /= n
			}
			var c *rdCase
			var names []string
			guardCase(rep, "C08", "reflectexh", "vf.small.Small", idx, func() {
				c = newRDCase(rep, s, 1, "exhaustive", idx)
				for _, li := range seq {
					if c.dead {
						break
					}
					names = append(names, alpha[li].name)
					alpha[li].f(c)
				}
			})
			rep.Eval("C08", []byte("exh|"+strings.Join(names, ";")), true)
			if total <= 2 && si == 0 {
				rep.Sample("C08", map[string]interface{}{"type": "vf.small.Small", "exhaustive_sequence": names})
			}
		}
	}
	rep.Count("C08", "exhaustive/alphabet-size", int64(n))
	rep.Count("C08", "exhaustive/histories", int64(total))
	rep.Count("C08", "exhaustive/max-length", int64(maxLen))
}
