package main

// Abstract value tree (IR) + an encoder/decoder written from the protobuf wire
// specification.  Nothing in this file calls protobuf-go's codecs; only
// descriptors (protoreflect) and the varint primitives written below are used.

import (
	"bytes"
	"errors"
	"fmt"
	"math"
	"sort"
	"unicode/utf8"

	"google.golang.org/protobuf/reflect/protoreflect"
)

type (
	FD   = protoreflect.FieldDescriptor
	MD   = protoreflect.MessageDescriptor
	Kind = protoreflect.Kind
)

// Val is one scalar/message value. Which member is meaningful depends on the kind:
// U: bool(0/1), all integer kinds (two's complement / raw), enum (int32 sign
// extended to 64 bits), float32 (raw 32 bits), float64 (raw bits).
// B: string and bytes.  M: message.
type Val struct {
	U uint64
	B []byte
	M *Msg
}

type KV struct{ K, V Val }

// FVal is the value of one populated field.
type FVal struct {
	FD FD
	S  *Val  // singular or oneof member
	L  []Val // list
	M  []KV  // map (no duplicate keys)
	// struct-level facts recorded by structToIR only (not part of the value)
	EmptyNonNil bool // container allocated but empty
}

type Msg struct {
	D   MD
	F   []*FVal // populated fields, any order, at most one per number
	Unk []byte
	Nil bool // the Go pointer was nil (reads as empty)
}

func (m *Msg) Get(num protoreflect.FieldNumber) *FVal {
	if m == nil {
		return nil
	}
	for _, f := range m.F {
		if f.FD.Number() == num {
			return f
		}
	}
	return nil
}

func (m *Msg) Del(num protoreflect.FieldNumber) {
	for i, f := range m.F {
		if f.FD.Number() == num {
			m.F = append(m.F[:i:i], m.F[i+1:]...)
			return
		}
	}
}

func inOneof(fd FD) bool {
	od := fd.ContainingOneof()
	return od != nil && !od.IsSynthetic()
}

// populated says whether a singular value counts as present for fd under proto3
// rules (oneof members and messages always; scalars iff non-zero bits / non-empty).
func populated(fd FD, v *Val) bool {
	if v == nil {
		return false
	}
	if inOneof(fd) || fd.HasPresence() {
		return true
	}
	switch fd.Kind() {
	case protoreflect.StringKind, protoreflect.BytesKind:
		return len(v.B) > 0
	case protoreflect.MessageKind, protoreflect.GroupKind:
		return v.M != nil
	case protoreflect.FloatKind:
		return uint32(v.U) != 0
	case protoreflect.Int32Kind, protoreflect.Sint32Kind, protoreflect.Sfixed32Kind, protoreflect.Uint32Kind, protoreflect.Fixed32Kind, protoreflect.EnumKind:
		return uint32(v.U) != 0
	default:
		return v.U != 0
	}
}

// ---------------------------------------------------------------------------
// primitives

func appendVarint(b []byte, v uint64) []byte {
	for v >= 0x80 {
		b = append(b, byte(v)|0x80)
		v >>= 7
	}
	return append(b, byte(v))
}

// appendVarintN writes v using exactly n bytes (n >= minimal length, n<=10): non-minimal encoding.
func appendVarintN(b []byte, v uint64, n int) []byte {
	for i := 0; i < n-1; i++ {
		b = append(b, byte(v)|0x80)
		v >>= 7
	}
	return append(b, byte(v)&0x7f)
}

func varintLen(v uint64) int {
	n := 1
	for v >= 0x80 {
		n++
		v >>= 7
	}
	return n
}

func zz64(v int64) uint64 { return uint64(v<<1) ^ uint64(v>>63) }
func unzz64(u uint64) int64 {
	return int64(u>>1) ^ -int64(u&1)
}

func wireTypeOf(k Kind) uint64 {
	switch k {
	case protoreflect.Fixed32Kind, protoreflect.Sfixed32Kind, protoreflect.FloatKind:
		return 5
	case protoreflect.Fixed64Kind, protoreflect.Sfixed64Kind, protoreflect.DoubleKind:
		return 1
	case protoreflect.StringKind, protoreflect.BytesKind, protoreflect.MessageKind:
		return 2
	case protoreflect.GroupKind:
		return 3
	}
	return 0
}

func appendTag(b []byte, num protoreflect.FieldNumber, wt uint64) []byte {
	return appendVarint(b, uint64(num)<<3|wt)
}

// ---------------------------------------------------------------------------
// spec encoder (deterministic, "legacy" order)

func legacyLess(x, y FD) bool {
	ox, oy := inOneof(x), inOneof(y)
	if ox != oy {
		return !ox
	}
	if ox && oy && x.ContainingOneof() != y.ContainingOneof() {
		return x.ContainingOneof().Index() < y.ContainingOneof().Index()
	}
	return x.Number() < y.Number()
}

// wireValue returns the on-wire integer for scalar kinds carried as varint/fixed.
func wireScalar(k Kind, v Val) uint64 {
	switch k {
	case protoreflect.BoolKind:
		if v.U != 0 {
			return 1
		}
		return 0
	case protoreflect.Int32Kind, protoreflect.EnumKind:
		return uint64(int64(int32(v.U))) // sign-extended to 10 bytes when negative
	case protoreflect.Sint32Kind:
		return zz64(int64(int32(v.U)))
	case protoreflect.Sint64Kind:
		return zz64(int64(v.U))
	case protoreflect.Uint32Kind, protoreflect.Fixed32Kind, protoreflect.Sfixed32Kind, protoreflect.FloatKind:
		return uint64(uint32(v.U))
	}
	return v.U
}

func appendScalar(b []byte, k Kind, v Val) []byte {
	switch wireTypeOf(k) {
	case 0:
		return appendVarint(b, wireScalar(k, v))
	case 5:
		u := uint32(wireScalar(k, v))
		return append(b, byte(u), byte(u>>8), byte(u>>16), byte(u>>24))
	case 1:
		u := wireScalar(k, v)
		return append(b, byte(u), byte(u>>8), byte(u>>16), byte(u>>24), byte(u>>32), byte(u>>40), byte(u>>48), byte(u>>56))
	case 2:
		b = appendVarint(b, uint64(len(v.B)))
		return append(b, v.B...)
	}
	panic("appendScalar: kind")
}

func appendSingle(b []byte, fd FD, v Val) []byte {
	if fd.Kind() == protoreflect.MessageKind {
		b = appendTag(b, fd.Number(), 2)
		var sub []byte
		if v.M != nil {
			sub = SpecEncode(v.M)
		}
		b = appendVarint(b, uint64(len(sub)))
		return append(b, sub...)
	}
	b = appendTag(b, fd.Number(), wireTypeOf(fd.Kind()))
	return appendScalar(b, fd.Kind(), v)
}

func mapKeyLess(k Kind, a, b Val) bool {
	switch k {
	case protoreflect.BoolKind:
		return a.U == 0 && b.U != 0
	case protoreflect.StringKind:
		return string(a.B) < string(b.B)
	case protoreflect.Int32Kind, protoreflect.Sint32Kind, protoreflect.Sfixed32Kind:
		return int32(a.U) < int32(b.U)
	case protoreflect.Int64Kind, protoreflect.Sint64Kind, protoreflect.Sfixed64Kind:
		return int64(a.U) < int64(b.U)
	case protoreflect.Uint32Kind, protoreflect.Fixed32Kind:
		return uint32(a.U) < uint32(b.U)
	}
	return a.U < b.U
}

// SpecEncode: deterministic encoding of the IR value by the rules C02 states.
func SpecEncode(m *Msg) []byte {
	if m == nil {
		return nil
	}
	var b []byte
	fs := make([]*FVal, 0, len(m.F))
	for _, f := range m.F {
		fs = append(fs, f)
	}
	sort.SliceStable(fs, func(i, j int) bool { return legacyLess(fs[i].FD, fs[j].FD) })
	for _, f := range fs {
		fd := f.FD
		switch {
		case fd.IsMap():
			kfd, vfd := fd.MapKey(), fd.MapValue()
			es := append([]KV(nil), f.M...)
			sort.SliceStable(es, func(i, j int) bool { return mapKeyLess(kfd.Kind(), es[i].K, es[j].K) })
			for _, e := range es {
				var ent []byte
				ent = appendSingle(ent, kfd, e.K)
				ent = appendSingle(ent, vfd, e.V)
				b = appendTag(b, fd.Number(), 2)
				b = appendVarint(b, uint64(len(ent)))
				b = append(b, ent...)
			}
		case fd.IsList():
			if len(f.L) == 0 {
				continue
			}
			if fd.IsPacked() {
				var p []byte
				for _, v := range f.L {
					p = appendScalar(p, fd.Kind(), v)
				}
				b = appendTag(b, fd.Number(), 2)
				b = appendVarint(b, uint64(len(p)))
				b = append(b, p...)
			} else {
				for _, v := range f.L {
					b = appendSingle(b, fd, v)
				}
			}
		default:
			if !populated(fd, f.S) {
				continue
			}
			b = appendSingle(b, fd, *f.S)
		}
	}
	return append(b, m.Unk...)
}

// ---------------------------------------------------------------------------
// spec decoder: bytes -> IR following the proto3 merge rules C03 states.

var (
	errTrunc    = errors.New("spec: truncated")
	errOverflow = errors.New("spec: varint overflow")
	errTag      = errors.New("spec: bad tag")
	errWT       = errors.New("spec: wire type mismatch")
	errGroup    = errors.New("spec: group")
	errUTF8     = errors.New("spec: invalid utf8")
	errDepth    = errors.New("spec: depth")
)

func consumeVarint(b []byte) (uint64, int, error) {
	var v uint64
	for i := 0; i < len(b); i++ {
		if i == 10 {
			return 0, 0, errOverflow
		}
		c := b[i]
		if i == 9 && c > 1 {
			return 0, 0, errOverflow
		}
		v |= uint64(c&0x7f) << (7 * uint(i))
		if c < 0x80 {
			return v, i + 1, nil
		}
	}
	return 0, 0, errTrunc
}

// consumeFieldValue returns the length of the value of a record with wire type wt
// (for groups: including the end-group tag).
func consumeFieldValue(num uint64, wt uint64, b []byte, depth int) (int, error) {
	switch wt {
	case 0:
		_, n, err := consumeVarint(b)
		return n, err
	case 1:
		if len(b) < 8 {
			return 0, errTrunc
		}
		return 8, nil
	case 5:
		if len(b) < 4 {
			return 0, errTrunc
		}
		return 4, nil
	case 2:
		l, n, err := consumeVarint(b)
		if err != nil {
			return 0, err
		}
		if l > uint64(len(b)-n) {
			return 0, errTrunc
		}
		return n + int(l), nil
	case 3:
		if depth > 10000 {
			return 0, errDepth
		}
		off := 0
		for {
			t, n, err := consumeVarint(b[off:])
			if err != nil {
				return 0, err
			}
			off += n
			fn, w := t>>3, t&7
			if fn == 0 || fn > 536870911 {
				return 0, errTag
			}
			if w == 4 {
				if fn != num {
					return 0, errGroup
				}
				return off, nil
			}
			vn, err := consumeFieldValue(fn, w, b[off:], depth+1)
			if err != nil {
				return 0, err
			}
			off += vn
		}
	}
	return 0, errWT
}

func decodeScalar(k Kind, wire uint64) Val {
	switch k {
	case protoreflect.BoolKind:
		if wire != 0 {
			return Val{U: 1}
		}
		return Val{}
	case protoreflect.Int32Kind, protoreflect.EnumKind:
		return Val{U: uint64(int64(int32(wire)))}
	case protoreflect.Uint32Kind:
		return Val{U: uint64(uint32(wire))}
	case protoreflect.Sint32Kind:
		return Val{U: uint64(int64(int32(unzz64(wire & 0xffffffff))))}
	case protoreflect.Sint64Kind:
		return Val{U: uint64(unzz64(wire))}
	case protoreflect.Sfixed32Kind:
		return Val{U: uint64(int64(int32(wire)))}
	case protoreflect.Fixed32Kind, protoreflect.FloatKind:
		return Val{U: uint64(uint32(wire))}
	}
	return Val{U: wire}
}

// normScalar brings Val.U into the canonical form used by the IR for the kind.
func normScalar(k Kind, v Val) Val {
	switch k {
	case protoreflect.Int32Kind, protoreflect.EnumKind, protoreflect.Sint32Kind, protoreflect.Sfixed32Kind:
		v.U = uint64(int64(int32(v.U)))
	case protoreflect.Uint32Kind, protoreflect.Fixed32Kind, protoreflect.FloatKind:
		v.U = uint64(uint32(v.U))
	case protoreflect.BoolKind:
		if v.U != 0 {
			v.U = 1
		}
	}
	return v
}

type SpecOpts struct {
	DiscardUnknown bool
	CheckUTF8      bool
}

// SpecDecodeInto merges the stream b into m (m.D must be set).
func SpecDecodeInto(m *Msg, b []byte, o SpecOpts, depth int) error {
	if depth > 10000 {
		return errDepth
	}
	m.Nil = false
	fields := m.D.Fields()
	for len(b) > 0 {
		t, n, err := consumeVarint(b)
		if err != nil {
			return err
		}
		num, wt := t>>3, t&7
		if num == 0 || num > 536870911 {
			return errTag
		}
		if wt == 4 || wt > 5 {
			return errTag
		}
		vn, err := consumeFieldValue(num, wt, b[n:], depth)
		if err != nil {
			return err
		}
		rec := b[:n+vn]
		val := b[n : n+vn]
		b = b[n+vn:]
		fd := fields.ByNumber(protoreflect.FieldNumber(num))
		if fd == nil {
			if !o.DiscardUnknown {
				m.Unk = append(m.Unk, rec...)
			}
			continue
		}
		ok, err := decodeKnown(m, fd, wt, val, o, depth)
		if err != nil {
			return err
		}
		if !ok { // wire type does not fit the field: reference keeps it as unknown
			if !o.DiscardUnknown {
				m.Unk = append(m.Unk, rec...)
			}
		}
	}
	return nil
}

func scalarFromWire(k Kind, wt uint64, val []byte) (Val, error) {
	switch wt {
	case 0:
		u, _, err := consumeVarint(val)
		return decodeScalar(k, u), err
	case 5:
		u := uint64(val[0]) | uint64(val[1])<<8 | uint64(val[2])<<16 | uint64(val[3])<<24
		return decodeScalar(k, u), nil
	case 1:
		var u uint64
		for i := 0; i < 8; i++ {
			u |= uint64(val[i]) << (8 * uint(i))
		}
		return decodeScalar(k, u), nil
	}
	return Val{}, errWT
}

func lenPayload(val []byte) []byte {
	_, n, _ := consumeVarint(val)
	return val[n:]
}

func decodeKnown(m *Msg, fd FD, wt uint64, val []byte, o SpecOpts, depth int) (bool, error) {
	k := fd.Kind()
	getOrAdd := func() *FVal {
		f := m.Get(fd.Number())
		if f == nil {
			f = &FVal{FD: fd}
			m.F = append(m.F, f)
		}
		return f
	}
	clearOneofSiblings := func() {
		if !inOneof(fd) {
			return
		}
		ofs := fd.ContainingOneof().Fields()
		for i := 0; i < ofs.Len(); i++ {
			if ofs.Get(i).Number() != fd.Number() {
				m.Del(ofs.Get(i).Number())
			}
		}
	}
	switch {
	case fd.IsMap():
		if wt != 2 {
			return false, nil
		}
		ent := lenPayload(val)
		kfd, vfd := fd.MapKey(), fd.MapValue()
		var key, value Val
		if vfd.Kind() == protoreflect.MessageKind {
			value.M = &Msg{D: vfd.Message()}
		}
		for len(ent) > 0 {
			t, n, err := consumeVarint(ent)
			if err != nil {
				return false, err
			}
			num, w := t>>3, t&7
			if num == 0 || num > 536870911 || w == 4 || w > 5 {
				return false, errTag
			}
			vn, err := consumeFieldValue(num, w, ent[n:], depth+1)
			if err != nil {
				return false, err
			}
			v := ent[n : n+vn]
			ent = ent[n+vn:]
			switch {
			case num == 1 && w == wireTypeOf(kfd.Kind()):
				if w == 2 {
					key = Val{B: append([]byte(nil), lenPayload(v)...)}
					if o.CheckUTF8 && kfd.Kind() == protoreflect.StringKind && !utf8.Valid(key.B) {
						return false, errUTF8
					}
				} else {
					key, err = scalarFromWire(kfd.Kind(), w, v)
					if err != nil {
						return false, err
					}
				}
			case num == 2 && w == wireTypeOf(vfd.Kind()):
				switch vfd.Kind() {
				case protoreflect.MessageKind:
					// reference: each occurrence of the value merges into the same entry value
					if err := SpecDecodeInto(value.M, lenPayload(v), o, depth+1); err != nil {
						return false, err
					}
				case protoreflect.StringKind, protoreflect.BytesKind:
					value = Val{B: append([]byte(nil), lenPayload(v)...)}
					if o.CheckUTF8 && vfd.Kind() == protoreflect.StringKind && !utf8.Valid(value.B) {
						return false, errUTF8
					}
				default:
					value, err = scalarFromWire(vfd.Kind(), w, v)
					if err != nil {
						return false, err
					}
				}
			default:
				// unknown or ill-typed record inside a map entry: dropped
			}
		}
		f := getOrAdd()
		for i := range f.M {
			if valEqualKey(kfd.Kind(), f.M[i].K, key) {
				f.M[i].V = value
				return true, nil
			}
		}
		f.M = append(f.M, KV{K: key, V: value})
		return true, nil
	case fd.IsList():
		if k == protoreflect.MessageKind || k == protoreflect.StringKind || k == protoreflect.BytesKind {
			if wt != 2 {
				return false, nil
			}
			p := lenPayload(val)
			f := getOrAdd()
			if k == protoreflect.MessageKind {
				sub := &Msg{D: fd.Message()}
				if err := SpecDecodeInto(sub, p, o, depth+1); err != nil {
					return false, err
				}
				f.L = append(f.L, Val{M: sub})
			} else {
				if o.CheckUTF8 && k == protoreflect.StringKind && !utf8.Valid(p) {
					return false, errUTF8
				}
				f.L = append(f.L, Val{B: append([]byte(nil), p...)})
			}
			return true, nil
		}
		if wt == wireTypeOf(k) {
			v, err := scalarFromWire(k, wt, val)
			if err != nil {
				return false, err
			}
			f := getOrAdd()
			f.L = append(f.L, v)
			return true, nil
		}
		if wt == 2 { // packed
			p := lenPayload(val)
			var vs []Val
			ew := wireTypeOf(k)
			for len(p) > 0 {
				n, err := consumeFieldValue(0, ew, p, depth)
				if err != nil {
					return false, err
				}
				v, err := scalarFromWire(k, ew, p[:n])
				if err != nil {
					return false, err
				}
				vs = append(vs, v)
				p = p[n:]
			}
			if len(vs) > 0 {
				f := getOrAdd()
				f.L = append(f.L, vs...)
			}
			return true, nil
		}
		return false, nil
	case k == protoreflect.MessageKind:
		if wt != 2 {
			return false, nil
		}
		clearOneofSiblings()
		f := getOrAdd()
		if f.S == nil || f.S.M == nil {
			f.S = &Val{M: &Msg{D: fd.Message()}}
		}
		if err := SpecDecodeInto(f.S.M, lenPayload(val), o, depth+1); err != nil {
			return false, err
		}
		return true, nil
	default:
		if wt != wireTypeOf(k) {
			return false, nil
		}
		var v Val
		if wt == 2 {
			v = Val{B: append([]byte(nil), lenPayload(val)...)}
			if o.CheckUTF8 && k == protoreflect.StringKind && !utf8.Valid(v.B) {
				return false, errUTF8
			}
		} else {
			var err error
			v, err = scalarFromWire(k, wt, val)
			if err != nil {
				return false, err
			}
		}
		clearOneofSiblings()
		f := getOrAdd()
		f.S = &v
		if !populated(fd, f.S) {
			m.Del(fd.Number())
		}
		return true, nil
	}
}

func valEqualKey(k Kind, a, b Val) bool {
	if k == protoreflect.StringKind {
		return bytes.Equal(a.B, b.B)
	}
	return normScalar(k, a).U == normScalar(k, b).U
}

func SpecDecode(d MD, b []byte, o SpecOpts) (*Msg, error) {
	m := &Msg{D: d}
	err := SpecDecodeInto(m, b, o, 0)
	return m, err
}

// ---------------------------------------------------------------------------
// helpers

// quietF32 returns a deep copy of m with every float32 NaN made quiet (bit 22 set).
// protoreflect.Value carries float32 as float64 and that conversion quiets
// signalling NaNs on amd64, so comparisons against Value-based references
// canonicalise both sides with this.
func quietF32(m *Msg) *Msg {
	if m == nil {
		return nil
	}
	out := &Msg{D: m.D, Unk: m.Unk, Nil: m.Nil}
	q := func(fd FD, v Val) Val {
		switch fd.Kind() {
		case protoreflect.FloatKind:
			u := uint32(v.U)
			if u&0x7f800000 == 0x7f800000 && u&0x007fffff != 0 {
				u |= 0x00400000
			}
			return Val{U: uint64(u)}
		case protoreflect.MessageKind:
			return Val{M: quietF32(v.M)}
		}
		return v
	}
	for _, f := range m.F {
		nf := &FVal{FD: f.FD}
		if f.S != nil {
			v := q(f.FD, *f.S)
			nf.S = &v
		}
		for _, v := range f.L {
			nf.L = append(nf.L, q(f.FD, v))
		}
		for _, e := range f.M {
			nf.M = append(nf.M, KV{K: e.K, V: q(f.FD.MapValue(), e.V)})
		}
		out.F = append(out.F, nf)
	}
	return out
}

func hasF32SNaN(m *Msg) bool {
	if m == nil {
		return false
	}
	return !bytes.Equal(SpecEncode(m), SpecEncode(quietF32(m)))
}

func f32bits(f float32) uint64 { return uint64(math.Float32bits(f)) }

func (m *Msg) String() string { return fmt.Sprintf("%s{%x}", m.D.FullName(), SpecEncode(m)) }
