package main

// Engine "libdiff": C10 - the generic protobuf-go algorithms (Equal, Clone,
// Merge, Reset, CheckInitialized) and the JSON / text codecs give the same
// answers on generated messages as on reference messages (dynamicpb) holding the
// same values.

import (
	"bytes"
	"fmt"
	"google.golang.org/protobuf/reflect/protoregistry"
	"google.golang.org/protobuf/types/known/anypb"
	"math/rand"
	"reflect"
	"strings"

	"github.com/cosmos/cosmos-proto/zzverif/glue"
	"google.golang.org/protobuf/encoding/protojson"
	"google.golang.org/protobuf/encoding/prototext"
	"google.golang.org/protobuf/proto"
	"google.golang.org/protobuf/reflect/protoreflect"
	"google.golang.org/protobuf/types/dynamicpb"
)

func init() { engines["libdiff"] = engineLibDiff }

// libdiffResolver: JSON and text output of an Any holding a generated message, produced with a caller-supplied
// resolver that knows extensions of the embedded option messages: the same text as for the dynamic twin.
func libdiffResolver(rep *Report) {
	s := glue.Lookup("vf.wkt.HoldsOptions")
	if s == nil {
		return
	}
	d := s.Zero.ProtoReflect().Descriptor()
	stream, unit, rank := customResolverStream()
	if stream == nil {
		rep.Inconclusive("C10", "custom-resolver-descriptor-rejected")
		return
	}
	mk := func(mt protoreflect.MessageType) *protoregistry.Types {
		ts := new(protoregistry.Types)
		_ = ts.RegisterMessage(mt)
		_ = ts.RegisterExtension(unit)
		_ = ts.RegisterExtension(rank)
		return ts
	}
	gen, dyn := mk(s.Zero.ProtoReflect().Type()), mk(dynamicpb.NewMessageType(d))
	a := &anypb.Any{TypeUrl: "/" + string(s.FullName), Value: stream}
	rc := replayCase{Engine: "libdiff", Type: string(s.FullName), Seed: *flagSeed, Index: -1, Value: hx(stream), Note: "custom resolver"}
	rep.Eval("C10", []byte("custom-resolver-json"), true)
	ja, e1 := protojson.MarshalOptions{Resolver: gen}.Marshal(a)
	jb, e2 := protojson.MarshalOptions{Resolver: dyn}.Marshal(a)
	if (e1 == nil) != (e2 == nil) || !bytes.Equal(ja, jb) {
		rep.Violate("C10", "libdiff/json-marshal/custom-resolver", string(s.FullName), fmt.Sprintf("protojson of an Any holding the message, with a resolver knowing two extensions: %s (err %v); with the dynamic twin: %s (err %v)", trunc(string(ja)), e1, trunc(string(jb)), e2), rc)
	}
	ta, e1 := prototext.MarshalOptions{Resolver: gen}.Marshal(a)
	tb, e2 := prototext.MarshalOptions{Resolver: dyn}.Marshal(a)
	norm := func(b []byte) string { return strings.Join(strings.Fields(string(b)), " ") }
	if (e1 == nil) != (e2 == nil) || norm(ta) != norm(tb) {
		rep.Violate("C10", "libdiff/text-marshal/custom-resolver", string(s.FullName), fmt.Sprintf("prototext: %s (err %v); with the dynamic twin: %s (err %v)", trunc(norm(ta)), e1, trunc(norm(tb)), e2), rc)
	}
	rep.Count("C10", "custom-resolver-renderings", 2)
}

func engineLibDiff(rep *Report) {
	if si, _ := shard(); si == 0 && onlyIndex() < 0 {
		guardCase(rep, "C10", "libdiff", "vf.wkt.HoldsOptions", -1, func() { libdiffResolver(rep) })
	}
	subs := allSubjects()
	n := perType(60, 3000)
	only := onlyIndex()
	for ti, s := range subs {
		rep.Types = append(rep.Types, string(s.FullName))
		d := s.Zero.ProtoReflect().Descriptor()
		for i := 0; i < n; i++ {
			if !mineCase(ti, i) {
				continue
			}
			if only >= 0 && i != only {
				continue
			}
			i := i
			guardCase(rep, "C10", "libdiff", string(s.FullName), i, func() { libdiffCase(rep, s, d, i) })
		}
	}
}

// perturb returns a copy of v that differs in exactly one place (or nil if v offers none).
func perturb(v *Msg, g *Gen, r *rand.Rand) *Msg {
	c := cloneIR(v)
	fs := c.D.Fields()
	if fs.Len() == 0 {
		if len(c.Unk) > 0 {
			c.Unk = nil
			return c
		}
		c.Unk = g.UnknownRecord(c.D, 0)
		return c
	}
	for tries := 0; tries < 20; tries++ {
		fd := fs.Get(r.Intn(fs.Len()))
		f := c.Get(fd.Number())
		switch {
		case f != nil && r.Intn(3) == 0:
			c.Del(fd.Number()) // drop a populated field
			return c
		case f != nil && fd.IsList() && len(f.L) > 0:
			if r.Intn(2) == 0 {
				f.L = f.L[:len(f.L)-1]
				if len(f.L) == 0 {
					c.Del(fd.Number())
				}
			} else if fd.Kind() != protoreflect.MessageKind {
				f.L[r.Intn(len(f.L))] = g.Scalar(fd)
			} else {
				continue
			}
			return c
		case f != nil && fd.IsMap() && len(f.M) > 0:
			if fd.MapValue().Kind() != protoreflect.MessageKind {
				f.M[r.Intn(len(f.M))].V = g.Scalar(fd.MapValue())
			} else {
				f.M = f.M[1:]
				if len(f.M) == 0 {
					c.Del(fd.Number())
				}
			}
			return c
		case f != nil && f.S != nil && f.S.M != nil:
			if p := perturb(f.S.M, g, r); p != nil {
				f.S.M = p
				return c
			}
		case !isComposite(fd):
			if inOneof(fd) {
				ofs := fd.ContainingOneof().Fields()
				for j := 0; j < ofs.Len(); j++ {
					c.Del(ofs.Get(j).Number())
				}
			} else {
				c.Del(fd.Number())
			}
			nv := g.Scalar(fd)
			if !populated(fd, &nv) {
				continue
			}
			c.F = append(c.F, &FVal{FD: fd, S: &nv})
			return c
		}
	}
	return nil
}

func libdiffCase(rep *Report, s *glue.Subject, d MD, idx int) {
	tn := string(s.FullName)
	seed := caseSeed(*flagSeed, tn, idx, "libdiff")
	o := defaultGen()
	o.NoSNaN = true
	o.LongValues = idx%10 == 0
	o.ValidEnums = idx%2 == 0
	g := NewGen(seed, o)
	r := rand.New(rand.NewSource(seed ^ 0x11bd1ff))
	v := g.Msg(d, 0)
	dropForeignNegZero(v, false)
	want := SpecEncode(Canon(v))
	rc := replayCase{Engine: "libdiff", Type: tn, Seed: *flagSeed, Index: idx, Value: hx(want)}
	rep.Eval("C10", append([]byte(tn), want...), len(v.F) > 0)
	if idx < 1 {
		rep.Sample("C10", map[string]string{"type": tn, "value_hex": hx(want)})
	}
	S := BuildStruct(s.Zero, v)
	D := BuildDyn(v)
	bad := func(key, detail string) { rep.Violate("C10", "libdiff/"+key, tn, detail, rc) }

	// ---- through an Any: JSON and text of an Any holding the message, parsed back (the library re-encodes the
	// embedded message deterministically, with AllowPartial): the same Any value as for the dynamic twin
	if idx%5 == 2 {
		av := v
		if hasRequiredBelow(d) && idx%2 == 0 {
			o2 := o
			o2.OmitRequired = true
			av = NewGen(seed^0x4a, o2).Msg(d, 0)
			dropForeignNegZero(av, false)
		}
		AS, AD := BuildStruct(s.Zero, av), BuildDyn(av)
		mkTypes := func(mt protoreflect.MessageType) *protoregistry.Types {
			ts := new(protoregistry.Types)
			_ = ts.RegisterMessage(mt)
			return ts
		}
		through := func(m proto.Message, ts *protoregistry.Types, text bool) ([]byte, error) {
			val, err := proto.MarshalOptions{AllowPartial: true, Deterministic: true}.Marshal(m)
			if err != nil {
				return nil, err
			}
			a := &anypb.Any{TypeUrl: "/" + tn, Value: val}
			back := &anypb.Any{}
			if text {
				b, err := prototext.MarshalOptions{AllowPartial: true, Resolver: ts}.Marshal(a)
				if err != nil {
					return nil, err
				}
				if err := (prototext.UnmarshalOptions{AllowPartial: true, Resolver: ts}).Unmarshal(b, back); err != nil {
					return nil, err
				}
			} else {
				b, err := protojson.MarshalOptions{AllowPartial: true, Resolver: ts}.Marshal(a)
				if err != nil {
					return nil, err
				}
				if err := (protojson.UnmarshalOptions{AllowPartial: true, Resolver: ts}).Unmarshal(b, back); err != nil {
					return nil, err
				}
			}
			return back.Value, nil
		}
		pan, pmsg := safely(func() {
			// types embedding Any themselves need those payload types resolvable too: fall back to the global registry there
			if reachesAny(d) {
				return
			}
			for _, text := range []bool{false, true} {
				g1, e1 := through(AS, mkTypes(s.Zero.ProtoReflect().Type()), text)
				g2, e2 := through(AD, mkTypes(dynamicpb.NewMessageType(d)), text)
				rep.Count("C10", "through-any-roundtrips", 1)
				if (e1 == nil) != (e2 == nil) {
					bad("through-any/error", fmt.Sprintf("text=%v: an Any holding the message, rendered and parsed back: err=%v, dynamic twin err=%v", text, e1, e2))
				} else if e1 == nil && !bytes.Equal(g1, g2) {
					bad("through-any/value", fmt.Sprintf("text=%v: the Any value re-encoded by the library after parsing differs from the dynamic twin's: %s", text, firstDiff(g1, g2)))
				}
			}
		})
		if pan {
			bad("through-any/panic", pmsg)
		}
	}

	// ---- hand-built state: nil pointers as list elements / map values read as empty messages; the library
	// algorithms see them exactly as the reference sees the corresponding empty messages
	if idx%4 == 1 && !hasRequiredBelow(d) {
		N := BuildStruct(s.Zero, v)
		if nilOutMessages(reflect.ValueOf(N), r, 0) > 0 {
			nv := Canon(StructToIR(N))
			nwant := SpecEncode(nv)
			ND := BuildDyn(nv)
			E := BuildStruct(s.Zero, nv) // the same value with empty messages instead of nil pointers
			rep.Count("C10", "states-with-nil-elements", 1)
			pan, pmsg := safely(func() {
				if !proto.Equal(N, E) || !proto.Equal(E, N) {
					bad("nil-elements/equal", "a message holding nil pointers as elements is not Equal (in both orders) to the same message holding empty messages")
				}
				if got := SpecEncode(quietF32(Canon(ReflToIR(proto.Clone(N).ProtoReflect())))); !bytes.Equal(got, SpecEncode(quietF32(nv))) {
					bad("nil-elements/clone", "Clone of a message holding nil elements: "+firstDiff(got, nwant))
				}
				dst := newOf(s.Zero)
				proto.Merge(dst, N)
				if got := SpecEncode(quietF32(Canon(ReflToIR(dst.ProtoReflect())))); !bytes.Equal(got, SpecEncode(quietF32(nv))) {
					bad("nil-elements/merge", "Merge from a message holding nil elements: "+firstDiff(got, nwant))
				}
				ja, e1 := protojson.Marshal(N)
				jb, e2 := protojson.Marshal(ND)
				if (e1 == nil) != (e2 == nil) || (e1 == nil && !bytes.Equal(ja, jb)) {
					bad("nil-elements/json", fmt.Sprintf("protojson of a message holding nil elements: %s (err %v), reference %s (err %v)", trunc(string(ja)), e1, trunc(string(jb)), e2))
				}
				ta, e1 := prototext.MarshalOptions{Multiline: false}.Marshal(N)
				tb, e2 := prototext.MarshalOptions{Multiline: false}.Marshal(ND)
				if (e1 == nil) != (e2 == nil) {
					bad("nil-elements/text", fmt.Sprintf("prototext err %v, reference err %v", e1, e2))
				} else if e1 == nil {
					x, y := newOf(s.Zero), dynamicpb.NewMessage(d)
					if prototext.Unmarshal(ta, x) != nil || prototext.Unmarshal(tb, y) != nil || !bytes.Equal(SpecEncode(quietF32(Canon(ReflToIR(x.ProtoReflect())))), SpecEncode(quietF32(Canon(ReflToIR(y))))) {
						bad("nil-elements/text", "text of a message holding nil elements parses back to another value than the reference text")
					}
				}
			})
			if pan {
				bad("nil-elements/panic", pmsg)
			}
		}
	}

	// ---- Equal: reflexive, against clones, against unequal variants (both argument orders) = reference verdicts
	if !proto.Equal(S, S) {
		bad("equal-self", "Equal(m, m) is false")
	}
	S2 := BuildStruct(s.Zero, v)
	if !proto.Equal(S, S2) || !proto.Equal(S2, S) {
		bad("equal-same-value", "two messages built from the same value are not Equal")
	}
	v2 := perturb(v, g, r)
	dropForeignNegZero(v2, false)
	if v2 != nil && !bytes.Equal(SpecEncode(Canon(v2)), want) {
		P, PD := BuildStruct(s.Zero, v2), BuildDyn(v2)
		wantEq := proto.Equal(D, PD)
		if got := proto.Equal(S, P); got != wantEq {
			bad("equal-variant", fmt.Sprintf("Equal(m, variant)=%v, reference %v; variant %x", got, wantEq, SpecEncode(Canon(v2))))
		}
		if got := proto.Equal(P, S); got != wantEq {
			bad("equal-variant", fmt.Sprintf("Equal(variant, m)=%v, reference %v; variant %x", got, wantEq, SpecEncode(Canon(v2))))
		}
		rep.Count("C10", "equal-variant-pairs", 1)
		// ---- Merge(dst=m, src=variant) as the reference merges
		dst, dstD := BuildStruct(s.Zero, v), BuildDyn(v)
		proto.Merge(dst, P)
		proto.Merge(dstD, PD)
		wb, _ := detOpts.Marshal(dstD)
		if got := SpecEncode(Canon(StructToIR(dst))); !bytes.Equal(got, wb) {
			bad("merge", "Merge(dst, src) differs from the reference: "+firstDiff(got, wb))
		} else {
			// dst must not share memory with src
			fp := Fingerprint(dst)
			n := 0
			flipByteSlices(reflect.ValueOf(P), 0, &n)
			if Fingerprint(dst) != fp {
				bad("merge-aliases-src", "changing src's bytes after Merge changed dst")
			}
		}
		rep.Count("C10", "merges", 1)
	}

	// ---- struct-level twins of the same value: empty-but-allocated containers (what the JSON/text parsers
	// store for "" / [] / {}) are the same protobuf value as nil ones for every library algorithm
	if idx%3 == 0 {
		E := BuildStruct(s.Zero, v)
		nilToEmpty(reflect.ValueOf(E), 0)
		if !proto.Equal(E, S) || !proto.Equal(S, E) {
			bad("equal-empty-vs-nil", "a message with empty allocated containers is not Equal to the same value with nil containers")
		}
		if ce := proto.Clone(E); !proto.Equal(E, ce) || !proto.Equal(ce, E) {
			bad("equal-clone-of-empty", "Equal(m, Clone(m)) is false for a message with empty allocated containers")
		}
		ej, e1 := protojson.Marshal(E)
		dj, e2 := protojson.Marshal(D)
		if (e1 == nil) != (e2 == nil) || (e1 == nil && !bytes.Equal(ej, dj)) {
			bad("json-marshal-empty-vs-nil", "protojson output of a message with empty allocated containers differs from the reference: "+firstDiffText(ej, dj))
		}
		et, e1 := prototext.Marshal(E)
		dt, e2 := prototext.Marshal(D)
		if (e1 == nil) != (e2 == nil) || (e1 == nil && !bytes.Equal(et, dt)) {
			bad("text-marshal-empty-vs-nil", "prototext output of a message with empty allocated containers differs from the reference: "+firstDiffText(et, dt))
		}
		rep.Count("C10", "empty-container-twins", 1)
	}
	if idx == 0 {
		// Clone of an invalid (nil) message is the invalid zero message, as for the reference
		nilPtr := reflect.Zero(reflect.TypeOf(s.Zero)).Interface().(proto.Message)
		var cv, rv bool
		pan, pmsg := safely(func() {
			cv = proto.Clone(nilPtr).ProtoReflect().IsValid()
			rv = proto.Clone(dynamicpb.NewMessageType(d).Zero().Interface()).ProtoReflect().IsValid()
		})
		if pan {
			bad("clone-nil-panics", pmsg)
		} else if cv != rv {
			bad("clone-nil-validity", fmt.Sprintf("Clone of a nil message is valid=%v, reference valid=%v", cv, rv))
		}
	}

	// ---- Clone: deep, equal, independent
	C := proto.Clone(S)
	if got := SpecEncode(Canon(StructToIR(C))); !bytes.Equal(got, want) {
		bad("clone-differs", "Clone differs from the original: "+firstDiff(got, want))
	}
	if reflect.TypeOf(C) != reflect.TypeOf(S) {
		bad("clone-type", fmt.Sprintf("Clone has type %T", C))
	}
	fpS := Fingerprint(S)
	n := 0
	flipByteSlices(reflect.ValueOf(C), 0, &n)
	safely(func() {
		// mutate the clone through reflection as well
		cr := C.ProtoReflect()
		cr.Range(func(fd FD, val protoreflect.Value) bool {
			switch {
			case fd.IsList():
				val.List().Truncate(0)
			case fd.IsMap():
				val.Map().Range(func(k protoreflect.MapKey, _ protoreflect.Value) bool { val.Map().Clear(k); return true })
			case fd.Kind() == protoreflect.MessageKind:
				val.Message().SetUnknown(protoreflect.RawFields{0xc0, 0x3e, 0x01})
			}
			return true
		})
	})
	if Fingerprint(S) != fpS {
		bad("clone-not-independent", "mutating the clone changed the original")
	}

	// ---- CheckInitialized: as the reference (also with required fields of embedded proto2 messages unset)
	e1, e2 := proto.CheckInitialized(S), proto.CheckInitialized(D)
	if (e1 == nil) != (e2 == nil) {
		bad("checkinitialized", fmt.Sprintf("CheckInitialized: %v, reference %v", e1, e2))
	}
	if u := dropRequired(v); u != nil {
		US, UD := BuildStruct(s.Zero, u), BuildDyn(u)
		e1, e2 := proto.CheckInitialized(US), proto.CheckInitialized(UD)
		rep.Count("C10", "uninitialised-variants", 1)
		if (e1 == nil) != (e2 == nil) {
			bad("checkinitialized", fmt.Sprintf("message with an unset required field in an embedded proto2 message: CheckInitialized %v, reference %v", e1, e2))
		}
		_, m1 := proto.Marshal(US)
		_, m2 := proto.Marshal(UD)
		if (m1 == nil) != (m2 == nil) {
			bad("marshal-uninitialised", fmt.Sprintf("Marshal of an uninitialised message: %v, reference %v", m1, m2))
		}
		ub, _ := proto.MarshalOptions{AllowPartial: true}.Marshal(UD)
		u1, u2 := proto.Unmarshal(ub, newOf(s.Zero)), proto.Unmarshal(ub, dynamicpb.NewMessage(d))
		if (u1 == nil) != (u2 == nil) {
			bad("unmarshal-uninitialised", fmt.Sprintf("Unmarshal of an uninitialised encoding: %v, reference %v", u1, u2))
		}
	}

	// ---- JSON / text: output and parse results
	refD := D
	var refDesc MD = d
	if rd := requestMessage(d.FullName()); rd != nil {
		// the reference is built on the schema as it was given to the generator
		refDesc = rd
		refD = dynamicpb.NewMessage(rd)
		if err := proto.Unmarshal(want, refD); err != nil {
			refD, refDesc = D, d
		}
	}
	jopts := []protojson.MarshalOptions{{}, {EmitUnpopulated: true}, {UseProtoNames: true, UseEnumNumbers: true}}
	jo := jopts[idx%len(jopts)]
	j1, je1 := jo.Marshal(S)
	j2, je2 := jo.Marshal(refD)
	rep.Count("C10", "json-marshals", 1)
	if (je1 == nil) != (je2 == nil) {
		bad("json-marshal-error", fmt.Sprintf("protojson.Marshal: %v, reference %v", je1, je2))
	} else if je1 == nil {
		if !bytes.Equal(j1, j2) {
			bad("json-marshal", "protojson output differs: "+firstDiffText(j1, j2))
		}
		// parse the reference's output in every spelling (json names, proto names + enum numbers, unpopulated fields) back into both
		for _, po := range jopts {
			in, perr := po.Marshal(refD)
			if perr != nil {
				continue
			}
			pj1, pj2 := newOf(s.Zero), dynamicpb.NewMessage(refDesc)
			ue1, ue2 := protojson.Unmarshal(in, pj1), protojson.Unmarshal(in, pj2)
			if (ue1 == nil) != (ue2 == nil) {
				bad("json-unmarshal-error", fmt.Sprintf("protojson.Unmarshal: %v, reference %v; input %s", ue1, ue2, truncB(in)))
			} else if ue1 == nil {
				rb, _ := detOpts.Marshal(pj2)
				if got := SpecEncode(Canon(StructToIR(pj1))); !bytes.Equal(got, rb) {
					bad("json-unmarshal", "protojson.Unmarshal result differs from the reference: "+firstDiff(got, rb))
				} else {
					// the parsed message (which holds whatever the parser stored for "" / [] / {}) behaves like the reference's
					o1, oe1 := protojson.Marshal(pj1)
					o2, oe2 := protojson.Marshal(pj2)
					if (oe1 == nil) != (oe2 == nil) || (oe1 == nil && !bytes.Equal(o1, o2)) {
						bad("json-remarshal-after-parse", "re-marshalling the parsed message differs from the reference: "+firstDiffText(o1, o2))
					}
					if !proto.Equal(pj1, proto.Clone(pj1)) {
						bad("equal-clone-after-parse", "Equal(m, Clone(m)) is false for a message produced by protojson.Unmarshal")
					}
				}
			}
			rep.Count("C10", "json-roundtrips", 1)
		}
	}
	t1, te1 := prototext.MarshalOptions{Multiline: idx%2 == 0}.Marshal(S)
	t2, te2 := prototext.MarshalOptions{Multiline: idx%2 == 0}.Marshal(refD)
	if (te1 == nil) != (te2 == nil) {
		bad("text-marshal-error", fmt.Sprintf("prototext.Marshal: %v, reference %v", te1, te2))
	} else if te1 == nil {
		if !bytes.Equal(t1, t2) {
			bad("text-marshal", "prototext output differs: "+firstDiffText(t1, t2))
		}
		pt1, pt2 := newOf(s.Zero), dynamicpb.NewMessage(refDesc)
		ue1, ue2 := prototext.Unmarshal(t2, pt1), prototext.Unmarshal(t2, pt2)
		if (ue1 == nil) != (ue2 == nil) {
			bad("text-unmarshal-error", fmt.Sprintf("prototext.Unmarshal: %v, reference %v", ue1, ue2))
		} else if ue1 == nil {
			rb, _ := detOpts.Marshal(pt2)
			if got := SpecEncode(Canon(StructToIR(pt1))); !bytes.Equal(got, rb) {
				bad("text-unmarshal", "prototext.Unmarshal result differs from the reference: "+firstDiff(got, rb))
			}
		}
		rep.Count("C10", "text-roundtrips", 1)
	}

	// ---- Reset empties the message (last: destroys S)
	proto.Reset(S)
	if ir := Canon(StructToIR(S)); len(ir.F) != 0 || len(ir.Unk) != 0 {
		bad("reset", fmt.Sprintf("after Reset the message still holds %x", SpecEncode(ir)))
	}
}

func truncB(b []byte) string {
	if len(b) > 300 {
		return string(b[:300]) + "..."
	}
	return string(b)
}

func firstDiffText(a, b []byte) string {
	n := len(a)
	if len(b) < n {
		n = len(b)
	}
	i := 0
	for i < n && a[i] == b[i] {
		i++
	}
	lo := i - 30
	if lo < 0 {
		lo = 0
	}
	ha, hb := i+40, i+40
	if ha > len(a) {
		ha = len(a)
	}
	if hb > len(b) {
		hb = len(b)
	}
	return fmt.Sprintf("at byte %d: ...%q vs ...%q", i, a[lo:ha], b[lo:hb])
}

// dropRequired returns a copy of v in which one required field of an embedded
// (proto2) message is removed, or nil when v contains none.
func dropRequired(v *Msg) *Msg {
	c := cloneIR(v)
	var walk func(m *Msg) bool
	walk = func(m *Msg) bool {
		if m == nil {
			return false
		}
		for _, f := range m.F {
			if f.FD.Cardinality() == protoreflect.Required {
				m.Del(f.FD.Number())
				return true
			}
		}
		for _, f := range m.F {
			if f.S != nil && walk(f.S.M) {
				return true
			}
			for _, x := range f.L {
				if walk(x.M) {
					return true
				}
			}
			for _, e := range f.M {
				if walk(e.V.M) {
					return true
				}
			}
		}
		return false
	}
	if walk(c) {
		return c
	}
	return nil
}

// dropForeignNegZero removes singular float/double fields holding -0.0 from nested
// messages of protobuf-go's own generated types (well-known types, descriptor.proto):
// protobuf-go's fast-path Merge for those types (mergeFloat64NoZero) itself drops
// -0.0, so Clone/Merge of a message embedding them loses the value whatever the
// parent's implementation is. That is protobuf-go's behaviour, not the subject's.
func dropForeignNegZero(m *Msg, foreign bool) {
	if m == nil {
		return
	}
	if !foreign && glue.Lookup(m.D.FullName()) == nil {
		foreign = true
	}
	keep := m.F[:0]
	for _, f := range m.F {
		fd := f.FD
		if foreign && f.S != nil && !inOneof(fd) && !fd.HasPresence() &&
			((fd.Kind() == protoreflect.DoubleKind && f.S.U == 0x8000000000000000) || (fd.Kind() == protoreflect.FloatKind && uint32(f.S.U) == 0x80000000)) {
			continue
		}
		if f.S != nil {
			dropForeignNegZero(f.S.M, foreign)
		}
		for _, x := range f.L {
			dropForeignNegZero(x.M, foreign)
		}
		for _, e := range f.M {
			dropForeignNegZero(e.V.M, foreign)
		}
		keep = append(keep, f)
	}
	m.F = keep
}
