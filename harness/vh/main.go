package main

import (
	"encoding/json"
	"flag"
	"fmt"
	"hash/fnv"
	"os"
	"regexp"
	"runtime/debug"
	"sort"
	"strconv"
	"strings"
	"sync"
	"syscall"
	"time"

	"github.com/cosmos/cosmos-proto/zzverif/glue"
)

type Violation struct {
	Prop   string      `json:"prop"`
	Key    string      `json:"key"`    // narrow class key (engine/op/shape) used for known-findings matching
	Type   string      `json:"type"`   // subject message type
	Detail string      `json:"detail"` // human readable
	Replay interface{} `json:"replay"` // everything needed to re-run the case
}

type PropReport struct {
	Evals        int64            `json:"evals"`
	Distinct     int64            `json:"distinct"`
	Violations   []Violation      `json:"violations"`
	NViolations  int64            `json:"n_violations"`
	Inconclusive map[string]int64 `json:"inconclusive"`
	Counters     map[string]int64 `json:"counters"`
	Samples      []interface{}    `json:"samples"`
	seen         map[uint64]struct{}
	vioKeys      map[string]int
}

type Report struct {
	mu     sync.Mutex
	Engine string                 `json:"engine"`
	Seed   int64                  `json:"seed"`
	Tier   string                 `json:"tier"`
	Shard  string                 `json:"shard"`
	Props  map[string]*PropReport `json:"props"`
	Types  []string               `json:"types"`
	Notes  []string               `json:"notes"`
}

func (r *Report) P(prop string) *PropReport {
	p := r.Props[prop]
	if p == nil {
		p = &PropReport{Inconclusive: map[string]int64{}, Counters: map[string]int64{}, seen: map[uint64]struct{}{}, vioKeys: map[string]int{}}
		r.Props[prop] = p
	}
	return p
}

// Eval counts one executed case; fp identifies the case for distinct counting and
// is only counted when the case is non-trivial by the engine's rule.
func (r *Report) Eval(prop string, fp []byte, nontrivial bool) {
	r.mu.Lock()
	defer r.mu.Unlock()
	p := r.P(prop)
	p.Evals++
	if nontrivial {
		h := hash64(fp)
		if _, ok := p.seen[h]; !ok {
			p.seen[h] = struct{}{}
			p.Distinct++
		}
	}
}

func (r *Report) Count(prop, counter string, n int64) {
	r.mu.Lock()
	defer r.mu.Unlock()
	r.P(prop).Counters[counter] += n
}

func (r *Report) Inconclusive(prop, cause string) {
	r.mu.Lock()
	defer r.mu.Unlock()
	r.P(prop).Inconclusive[cause]++
}

func (r *Report) Sample(prop string, s interface{}) {
	r.mu.Lock()
	defer r.mu.Unlock()
	p := r.P(prop)
	if len(p.Samples) < 4 {
		p.Samples = append(p.Samples, s)
	}
}

const maxViolationsPerKey = 3

func (r *Report) Violate(prop, key, typ, detail string, replay interface{}) {
	r.mu.Lock()
	defer r.mu.Unlock()
	p := r.P(prop)
	p.NViolations++
	k := key + "|" + typ
	p.vioKeys[k]++
	if p.vioKeys[k] > maxViolationsPerKey || len(p.Violations) > 400 {
		return
	}
	if len(detail) > 2000 {
		detail = detail[:2000] + "..."
	}
	p.Violations = append(p.Violations, Violation{Prop: prop, Key: key, Type: typ, Detail: detail, Replay: replay})
}

var (
	flagEngine = flag.String("engine", "", "engine name")
	flagSeed   = flag.Int64("seed", 1, "VERIF_SEED")
	flagTier   = flag.String("tier", "quick", "quick|thorough")
	flagShard  = flag.String("shard", "0/1", "i/n: work on subject types with index%n==i")
	flagOut    = flag.String("out", "", "result json")
	flagTypes  = flag.String("types", "", "regexp restricting subject types")
	flagN      = flag.Int("n", 0, "override cases per type")
	flagReplay = flag.String("replay", "", "replay file")
	flagArg    = flag.String("arg", "", "engine specific argument")
	flagProg   = flag.String("progress", "", "progress file (engine total)")
	flagCase   = flag.String("casefile", "", "file that always names the case being worked on (read by the driver when the process dies)")
)

var rep *Report

type engineFn func(r *Report)

var engines = map[string]engineFn{}

func shard() (int, int) {
	var i, n int
	fmt.Sscanf(*flagShard, "%d/%d", &i, &n)
	if n <= 0 {
		n = 1
	}
	return i, n
}

// subjectsForShard returns the subject types this process works on.
func subjectsForShard() []*glue.Subject {
	all := glue.All()
	var re *regexp.Regexp
	if *flagTypes != "" {
		re = regexp.MustCompile(*flagTypes)
	}
	i, n := shard()
	var out []*glue.Subject
	idx := 0
	for _, s := range all {
		if re != nil && !re.MatchString(string(s.FullName)) {
			continue
		}
		if idx%n == i {
			out = append(out, s)
		}
		idx++
	}
	return out
}

// allSubjects returns every subject type (restricted by -types); engines that shard by case use it.
func allSubjects() []*glue.Subject {
	all := glue.All()
	if *flagTypes == "" {
		return all
	}
	re := regexp.MustCompile(*flagTypes)
	var out []*glue.Subject
	for _, s := range all {
		if re.MatchString(string(s.FullName)) {
			out = append(out, s)
		}
	}
	return out
}

// mineCase: case i of type number ti belongs to this shard (balanced: every shard sees every type).
func mineCase(ti, i int) bool {
	si, sn := shard()
	return (ti+i)%sn == si
}

func caseSeed(seed int64, typ string, idx int, salt string) int64 {
	h := fnv.New64a()
	fmt.Fprintf(h, "%d|%s|%d|%s", seed, typ, idx, salt)
	return int64(h.Sum64() & 0x7fffffffffffffff)
}

// safely runs f, converting a panic into an error string with a short stack.
func safely(f func()) (panicked bool, msg string) {
	defer func() {
		if e := recover(); e != nil {
			panicked = true
			st := string(debug.Stack())
			// keep the frames below the panic
			lines := strings.Split(st, "\n")
			if len(lines) > 24 {
				lines = lines[:24]
			}
			msg = fmt.Sprintf("panic: %v\n%s", e, strings.Join(lines, "\n"))
		}
	}()
	f()
	return
}

func perType(quick, thorough int) int {
	if *flagN > 0 {
		return *flagN
	}
	if *flagTier == "thorough" {
		return thorough
	}
	return quick
}

func main() {
	flag.Parse()
	debug.SetPanicOnFault(true)
	rep = &Report{Engine: *flagEngine, Seed: *flagSeed, Tier: *flagTier, Shard: *flagShard, Props: map[string]*PropReport{}}
	if *flagEngine == "listtypes" {
		var names []string
		for _, s := range subjectsForShard() {
			names = append(names, string(s.FullName))
		}
		b, _ := json.Marshal(map[string]interface{}{"types": names})
		os.Stdout.Write(b)
		return
	}
	f := engines[*flagEngine]
	if f == nil {
		names := []string{}
		for k := range engines {
			names = append(names, k)
		}
		sort.Strings(names)
		fmt.Fprintf(os.Stderr, "unknown engine %q; have %v\n", *flagEngine, names)
		os.Exit(2)
	}
	openCaseFile()
	go memoryGuard()
	f(rep)
	b, err := json.MarshalIndent(rep, "", " ")
	if err != nil {
		fmt.Fprintln(os.Stderr, "marshal report:", err)
		os.Exit(2)
	}
	if *flagOut == "" {
		os.Stdout.Write(b)
	} else if err := os.WriteFile(*flagOut, b, 0o644); err != nil {
		fmt.Fprintln(os.Stderr, err)
		os.Exit(2)
	}
}

// guardCase runs one engine case; a panic escaping the case's own monitors (a
// subject call that was not individually wrapped) is reported as a violation of
// the engine's primary property instead of killing the process.
func guardCase(rep *Report, prop, engine, typ string, idx int, f func()) {
	markCase(prop, engine, typ, idx)
	defer markCase("", "", "", -1)
	pan, pmsg := safely(f)
	if pan {
		rep.Violate(prop, engine+"/unhandled-panic", typ, "a call into the subject panicked outside the per-call monitors: "+pmsg,
			replayCase{Engine: engine, Type: typ, Seed: *flagSeed, Index: idx})
	}
}

// ---- case file: a 512-byte shared mapping that names the case in progress, so that the driver can attribute a
// fatal runtime error (stack overflow, concurrent map writes: not recoverable, the process dies) to a case.
// Layout: bytes 0..7 property (padded with NUL), bytes 8.. "engine\x00type\x00index\x00".

var caseMem []byte

func openCaseFile() {
	if *flagCase == "" {
		return
	}
	f, err := os.OpenFile(*flagCase, os.O_RDWR|os.O_CREATE, 0o644)
	if err != nil {
		return
	}
	f.Truncate(512)
	b, err := syscall.Mmap(int(f.Fd()), 0, 512, syscall.PROT_READ|syscall.PROT_WRITE, syscall.MAP_SHARED)
	if err == nil {
		caseMem = b
	}
}

func markCase(prop, engine, typ string, idx int) {
	if caseMem == nil {
		return
	}
	markProp(prop)
	rest := caseMem[8:]
	for i := range rest {
		rest[i] = 0
	}
	if engine != "" {
		copy(rest[:len(rest)-1], engine+"\x00"+typ+"\x00"+strconv.Itoa(idx)+"\x00")
	}
}

// markProp names the property whose clause the case is about to exercise.
func markProp(prop string) {
	if caseMem == nil {
		return
	}
	var b [8]byte
	copy(b[:], prop)
	copy(caseMem[:8], b[:])
}

// memoryGuard ends the process when its resident set passes a limit far above anything the workloads need: a subject
// whose memory use explodes (doubling buffers) would otherwise take the whole machine down before anything is
// reported.  The driver sees the "fatal error" line and attributes it to the case named in the case file.
func memoryGuard() {
	limit := int64(8) << 30
	if v := os.Getenv("VERIF_VH_RSS_LIMIT_GB"); v != "" {
		if n, err := strconv.Atoi(v); err == nil && n > 0 {
			limit = int64(n) << 30
		}
	}
	page := int64(os.Getpagesize())
	for {
		time.Sleep(40 * time.Millisecond)
		b, err := os.ReadFile("/proc/self/statm")
		if err != nil {
			return
		}
		fs := strings.Fields(string(b))
		if len(fs) < 2 {
			return
		}
		pages, _ := strconv.ParseInt(fs[1], 10, 64)
		if pages*page > limit {
			fmt.Fprintf(os.Stderr, "fatal error: resident memory of the harness process grew beyond %d GiB (memory explosion in the code under test)\n", limit>>30)
			os.Exit(2)
		}
	}
}
