package main

// Materialising IR values into the different "worlds":
//   - BuildStruct: plain Go reflection on the generated struct (exact bits,
//     struct-level states; needs no protobuf reflection at all except to
//     discover oneof wrapper types once per field)
//   - Fill(view,...): through a protoreflect implementation: fast (pulsar), slow
//     (protobuf-go impl over the same struct) or dynamicpb
//   - ReflToIR: reading any protoreflect.Message back into IR

import (
	"fmt"
	"math"
	"reflect"
	"sync"

	"github.com/cosmos/cosmos-proto/zzverif/glue"
	"google.golang.org/protobuf/proto"
	"google.golang.org/protobuf/reflect/protoreflect"
	"google.golang.org/protobuf/types/dynamicpb"
)

type viewFn func(proto.Message) protoreflect.Message

func fastView(m proto.Message) protoreflect.Message { return m.ProtoReflect() }

// slowView: protobuf-go's table-driven reflection over the same struct for
// subject types; for non-subject types (well-known types, cosmos_proto) their
// own ProtoReflect already is that implementation.
func slowView(m proto.Message) protoreflect.Message {
	if s := glue.Lookup(m.ProtoReflect().Descriptor().FullName()); s != nil {
		if reflect.TypeOf(m) == reflect.TypeOf(s.Zero) {
			return s.Slow(m)
		}
	}
	return m.ProtoReflect()
}

func isSubject(m proto.Message) bool {
	s := glue.Lookup(m.ProtoReflect().Descriptor().FullName())
	return s != nil && reflect.TypeOf(m) == reflect.TypeOf(s.Zero)
}

func newOf(zero proto.Message) proto.Message {
	return reflect.New(reflect.TypeOf(zero).Elem()).Interface().(proto.Message)
}

func valueOf(fd FD, v Val) protoreflect.Value {
	switch fd.Kind() {
	case protoreflect.BoolKind:
		return protoreflect.ValueOfBool(v.U != 0)
	case protoreflect.EnumKind:
		return protoreflect.ValueOfEnum(protoreflect.EnumNumber(int32(v.U)))
	case protoreflect.Int32Kind, protoreflect.Sint32Kind, protoreflect.Sfixed32Kind:
		return protoreflect.ValueOfInt32(int32(v.U))
	case protoreflect.Uint32Kind, protoreflect.Fixed32Kind:
		return protoreflect.ValueOfUint32(uint32(v.U))
	case protoreflect.Int64Kind, protoreflect.Sint64Kind, protoreflect.Sfixed64Kind:
		return protoreflect.ValueOfInt64(int64(v.U))
	case protoreflect.Uint64Kind, protoreflect.Fixed64Kind:
		return protoreflect.ValueOfUint64(v.U)
	case protoreflect.FloatKind:
		return protoreflect.ValueOfFloat32(math.Float32frombits(uint32(v.U)))
	case protoreflect.DoubleKind:
		return protoreflect.ValueOfFloat64(math.Float64frombits(v.U))
	case protoreflect.StringKind:
		return protoreflect.ValueOfString(string(v.B))
	case protoreflect.BytesKind:
		return protoreflect.ValueOfBytes(append([]byte{}, v.B...))
	}
	panic("valueOf: kind " + fd.Kind().String())
}

func valFromValue(fd FD, v protoreflect.Value) Val {
	switch fd.Kind() {
	case protoreflect.BoolKind:
		if v.Bool() {
			return Val{U: 1}
		}
		return Val{}
	case protoreflect.EnumKind:
		return Val{U: uint64(int64(int32(v.Enum())))}
	case protoreflect.Int32Kind, protoreflect.Sint32Kind, protoreflect.Sfixed32Kind, protoreflect.Int64Kind, protoreflect.Sint64Kind, protoreflect.Sfixed64Kind:
		return normScalar(fd.Kind(), Val{U: uint64(v.Int())})
	case protoreflect.Uint32Kind, protoreflect.Fixed32Kind, protoreflect.Uint64Kind, protoreflect.Fixed64Kind:
		return normScalar(fd.Kind(), Val{U: v.Uint()})
	case protoreflect.FloatKind:
		return Val{U: uint64(math.Float32bits(float32(v.Float())))}
	case protoreflect.DoubleKind:
		return Val{U: math.Float64bits(v.Float())}
	case protoreflect.StringKind:
		return Val{B: []byte(v.String())}
	case protoreflect.BytesKind:
		return Val{B: append([]byte(nil), v.Bytes()...)}
	case protoreflect.MessageKind:
		return Val{M: ReflToIR(v.Message())}
	}
	panic("valFromValue: kind")
}

// Fill sets the IR value into message m through the given reflection view.
// Nested messages are filled recursively through the same kind of view.
func Fill(view viewFn, m proto.Message, ir *Msg) {
	r := view(m)
	d := r.Descriptor()
	for _, f := range ir.F {
		fd := d.Fields().ByNumber(f.FD.Number())
		switch {
		case fd.IsMap():
			mp := r.Mutable(fd).Map()
			for _, e := range f.M {
				k := valueOf(fd.MapKey(), e.K).MapKey()
				if fd.MapValue().Kind() == protoreflect.MessageKind {
					nv := mp.NewValue()
					if e.V.M != nil {
						Fill(view, nv.Message().Interface(), e.V.M)
					}
					mp.Set(k, nv)
				} else {
					mp.Set(k, valueOf(fd.MapValue(), e.V))
				}
			}
		case fd.IsList():
			l := r.Mutable(fd).List()
			for _, v := range f.L {
				if fd.Kind() == protoreflect.MessageKind {
					ne := l.NewElement()
					if v.M != nil {
						Fill(view, ne.Message().Interface(), v.M)
					}
					l.Append(ne)
				} else {
					l.Append(valueOf(fd, v))
				}
			}
		case fd.Kind() == protoreflect.MessageKind:
			if f.S == nil {
				continue
			}
			nv := r.NewField(fd)
			if f.S.M != nil {
				Fill(view, nv.Message().Interface(), f.S.M)
			}
			r.Set(fd, nv)
		default:
			if f.S == nil {
				continue
			}
			r.Set(fd, valueOf(fd, *f.S))
		}
	}
	if len(ir.Unk) > 0 {
		r.SetUnknown(append(protoreflect.RawFields{}, ir.Unk...))
	}
}

func BuildDyn(ir *Msg) *dynamicpb.Message {
	m := dynamicpb.NewMessage(ir.D)
	Fill(fastView, m, ir)
	return m
}

// ReflToIR reads a message through its protoreflect interface.
func ReflToIR(r protoreflect.Message) *Msg {
	out := &Msg{D: r.Descriptor()}
	if !r.IsValid() {
		out.Nil = true
		return out
	}
	r.Range(func(fd FD, v protoreflect.Value) bool {
		f := &FVal{FD: fd}
		switch {
		case fd.IsMap():
			v.Map().Range(func(k protoreflect.MapKey, mv protoreflect.Value) bool {
				f.M = append(f.M, KV{K: valFromValue(fd.MapKey(), k.Value()), V: valFromValue(fd.MapValue(), mv)})
				return true
			})
		case fd.IsList():
			l := v.List()
			for i := 0; i < l.Len(); i++ {
				f.L = append(f.L, valFromValue(fd, l.Get(i)))
			}
		default:
			x := valFromValue(fd, v)
			f.S = &x
		}
		out.F = append(out.F, f)
		return true
	})
	if u := r.GetUnknown(); len(u) > 0 {
		out.Unk = append([]byte(nil), u...)
	}
	return out
}

// ---------------------------------------------------------------------------
// plain-Go-reflection struct writer

type wrapKey struct {
	t   reflect.Type
	num protoreflect.FieldNumber
}

var (
	wrapMu    sync.Mutex
	wrapTypes = map[wrapKey]reflect.Type{}
)

// oneofWrapperType finds the Go wrapper struct type of a oneof member by setting
// the member once on a scratch message through the slow (or native) reflection
// and looking at the interface field with package reflect.
func oneofWrapperType(msgPtrType reflect.Type, fd FD, ifaceFieldIdx int) reflect.Type {
	wrapMu.Lock()
	defer wrapMu.Unlock()
	k := wrapKey{msgPtrType, fd.Number()}
	if t, ok := wrapTypes[k]; ok {
		return t
	}
	scratch := reflect.New(msgPtrType.Elem())
	r := slowView(scratch.Interface().(proto.Message))
	lfd := r.Descriptor().Fields().ByNumber(fd.Number())
	if lfd.Kind() == protoreflect.MessageKind {
		r.Set(lfd, r.NewField(lfd))
	} else {
		r.Set(lfd, lfd.Default())
	}
	iv := scratch.Elem().Field(ifaceFieldIdx)
	if iv.IsNil() {
		panic("oneofWrapperType: set did not populate interface field")
	}
	t := iv.Elem().Type() // *Wrapper
	wrapTypes[k] = t
	return t
}

func setScalarRV(fd FD, rv reflect.Value, v Val) {
	switch rv.Kind() {
	case reflect.Bool:
		rv.SetBool(v.U != 0)
	case reflect.Int32:
		rv.SetInt(int64(int32(v.U)))
	case reflect.Int64:
		rv.SetInt(int64(v.U))
	case reflect.Uint32:
		rv.SetUint(uint64(uint32(v.U)))
	case reflect.Uint64:
		rv.SetUint(v.U)
	case reflect.Float32:
		*(*uint32)(rv.Addr().UnsafePointer()) = uint32(v.U)
	case reflect.Float64:
		rv.SetFloat(math.Float64frombits(v.U))
	case reflect.String:
		rv.SetString(string(v.B))
	case reflect.Slice:
		rv.SetBytes(append([]byte{}, v.B...))
	default:
		panic(fmt.Sprintf("setScalarRV %v", rv.Kind()))
	}
}

func setValRV(fd FD, rv reflect.Value, v Val) {
	if fd.Kind() == protoreflect.MessageKind {
		if v.M == nil || v.M.Nil {
			rv.Set(reflect.Zero(rv.Type()))
			return
		}
		p := reflect.New(rv.Type().Elem())
		fillStruct(p, v.M)
		rv.Set(p)
		return
	}
	setScalarRV(fd, rv, v)
}

// BuildStruct creates a new generated message of zero's type holding ir.
func BuildStruct(zero proto.Message, ir *Msg) proto.Message {
	p := reflect.New(reflect.TypeOf(zero).Elem())
	fillStruct(p, ir)
	return p.Interface().(proto.Message)
}

func fillStruct(p reflect.Value, ir *Msg) {
	sv := p.Elem()
	st := sv.Type()
	byNum := map[protoreflect.FieldNumber]int{}
	oneofIdx := map[string]int{}
	for i := 0; i < st.NumField(); i++ {
		sf := st.Field(i)
		if on, ok := sf.Tag.Lookup("protobuf_oneof"); ok {
			oneofIdx[on] = i
			continue
		}
		if tag, ok := sf.Tag.Lookup("protobuf"); ok {
			if n, ok := tagNumber(tag); ok {
				byNum[n] = i
			}
		}
	}
	for _, f := range ir.F {
		fd := f.FD
		if inOneof(fd) {
			if f.S == nil {
				continue
			}
			idx, ok := oneofIdx[string(fd.ContainingOneof().Name())]
			if !ok {
				panic("no oneof field " + string(fd.ContainingOneof().Name()) + " in " + st.String())
			}
			wt := oneofWrapperType(p.Type(), fd, idx)
			w := reflect.New(wt.Elem())
			setValRV(fd, w.Elem().Field(0), *f.S)
			sv.Field(idx).Set(w)
			continue
		}
		idx, ok := byNum[fd.Number()]
		if !ok {
			panic(fmt.Sprintf("no struct field for number %d in %s", fd.Number(), st))
		}
		fv := sv.Field(idx)
		switch {
		case fd.IsMap():
			mv := reflect.MakeMap(fv.Type())
			for _, e := range f.M {
				k := reflect.New(fv.Type().Key()).Elem()
				setValRV(fd.MapKey(), k, e.K)
				v := reflect.New(fv.Type().Elem()).Elem()
				setValRV(fd.MapValue(), v, e.V)
				mv.SetMapIndex(k, v)
			}
			fv.Set(mv)
		case fd.IsList():
			lv := reflect.MakeSlice(fv.Type(), len(f.L), len(f.L))
			for i, v := range f.L {
				setValRV(fd, lv.Index(i), v)
			}
			fv.Set(lv)
		default:
			if f.S == nil {
				continue
			}
			if fv.Kind() == reflect.Ptr && fd.Kind() != protoreflect.MessageKind {
				nv := reflect.New(fv.Type().Elem())
				setScalarRV(fd, nv.Elem(), *f.S)
				fv.Set(nv)
				continue
			}
			setValRV(fd, fv, *f.S)
		}
	}
	if len(ir.Unk) > 0 {
		uf := sv.FieldByName("unknownFields")
		// unexported: write through unsafe pointer
		*(*[]byte)(uf.Addr().UnsafePointer()) = append([]byte{}, ir.Unk...)
	}
}
