package main

// Engine "alias": C07 - codec calls do not alias or disturb caller buffers.
// Monitors: page-guard buffers (mmap + mprotect + SetPanicOnFault), struct
// fingerprints around read-only calls, output scribbling.

import (
	"bytes"
	"fmt"
	"github.com/cosmos/cosmos-proto/anyutil"
	"google.golang.org/protobuf/types/known/anypb"
	"math/rand"
	"reflect"
	"strings"
	"syscall"

	"github.com/cosmos/cosmos-proto/zzverif/glue"
	"google.golang.org/protobuf/encoding/protojson"
	"google.golang.org/protobuf/encoding/prototext"
	"google.golang.org/protobuf/encoding/protowire"
	"google.golang.org/protobuf/proto"
	"google.golang.org/protobuf/reflect/protoreflect"
	"google.golang.org/protobuf/runtime/protoiface"
)

func init() { engines["alias"] = engineAlias }

const pageSize = 4096

type guardArena struct {
	mem   []byte // data pages followed by one guard page
	ndata int    // bytes of data pages
}

func newArena(dataPages int) *guardArena {
	n := (dataPages + 1) * pageSize
	mem, err := syscall.Mmap(-1, 0, n, syscall.PROT_READ|syscall.PROT_WRITE, syscall.MAP_ANON|syscall.MAP_PRIVATE)
	if err != nil {
		panic(err)
	}
	a := &guardArena{mem: mem, ndata: dataPages * pageSize}
	if err := syscall.Mprotect(mem[a.ndata:], syscall.PROT_NONE); err != nil {
		panic(err)
	}
	return a
}

func (a *guardArena) prot(p int) {
	if err := syscall.Mprotect(a.mem[:a.ndata], p); err != nil {
		panic(err)
	}
}

// place copies in to the very end of the data pages (flush against the guard page).
func (a *guardArena) place(in []byte) []byte {
	a.prot(syscall.PROT_READ | syscall.PROT_WRITE)
	if len(in) > a.ndata {
		return nil
	}
	off := a.ndata - len(in)
	copy(a.mem[off:], in)
	return a.mem[off:a.ndata:a.ndata]
}

func (a *guardArena) scribbleAndUnmap() {
	a.prot(syscall.PROT_READ | syscall.PROT_WRITE)
	for i := range a.mem[:a.ndata] {
		a.mem[i] = 0xEE
	}
	a.prot(syscall.PROT_NONE)
}

// flipByteSlices XORs every byte of every []byte reachable in the struct
// (bytes fields, bytes list elements, map values, unknownFields) in place.
func flipByteSlices(rv reflect.Value, depth int, n *int) {
	if depth > 100 {
		return
	}
	switch rv.Kind() {
	case reflect.Ptr, reflect.Interface:
		if !rv.IsNil() {
			flipByteSlices(rv.Elem(), depth+1, n)
		}
	case reflect.Struct:
		for i := 0; i < rv.NumField(); i++ {
			name := rv.Type().Field(i).Name
			if name == "state" || name == "sizeCache" {
				continue
			}
			flipByteSlices(rv.Field(i), depth+1, n)
		}
	case reflect.Slice:
		if rv.Type().Elem().Kind() == reflect.Uint8 {
			if rv.Len() > 0 {
				// works for unexported fields too: go through the data pointer
				p := rv.UnsafePointer()
				b := (*[1 << 30]byte)(p)[:rv.Len():rv.Len()]
				for i := range b {
					b[i] ^= 0xff
				}
				*n += len(b)
			}
			return
		}
		for i := 0; i < rv.Len(); i++ {
			flipByteSlices(rv.Index(i), depth+1, n)
		}
	case reflect.Map:
		it := rv.MapRange()
		for it.Next() {
			flipByteSlices(it.Value(), depth+1, n)
		}
	}
}

// nilToEmpty replaces nil slices/maps of protobuf fields by empty allocated ones
// (struct-level state the protobuf value does not distinguish).
func nilToEmpty(rv reflect.Value, depth int) {
	if depth > 100 {
		return
	}
	switch rv.Kind() {
	case reflect.Ptr, reflect.Interface:
		if !rv.IsNil() {
			nilToEmpty(rv.Elem(), depth+1)
		}
	case reflect.Struct:
		t := rv.Type()
		for i := 0; i < rv.NumField(); i++ {
			sf := t.Field(i)
			if sf.Name == "unknownFields" && sf.Type.Kind() == reflect.Slice && rv.Field(i).IsNil() && rv.Field(i).CanAddr() {
				// cleared with SetUnknown(RawFields{}): empty but allocated
				*(*[]byte)(rv.Field(i).Addr().UnsafePointer()) = []byte{}
				continue
			}
			if sf.PkgPath != "" {
				continue
			}
			fv := rv.Field(i)
			if tag, ok := sf.Tag.Lookup("protobuf"); ok {
				switch fv.Kind() {
				case reflect.Slice:
					if fv.Type().Elem().Kind() == reflect.Uint8 && !strings.Contains(tag, "proto3") {
						// a proto2 optional bytes field has presence: nil and empty are different values
						continue
					}
					if fv.IsNil() {
						fv.Set(reflect.MakeSlice(fv.Type(), 0, 0))
						continue
					}
				case reflect.Map:
					if fv.IsNil() {
						fv.Set(reflect.MakeMap(fv.Type()))
						continue
					}
				}
			}
			nilToEmpty(fv, depth+1)
		}
	case reflect.Slice:
		if rv.Type().Elem().Kind() == reflect.Ptr {
			for i := 0; i < rv.Len(); i++ {
				nilToEmpty(rv.Index(i), depth+1)
			}
		}
	case reflect.Map:
		if rv.Type().Elem().Kind() == reflect.Ptr {
			it := rv.MapRange()
			for it.Next() {
				nilToEmpty(it.Value(), depth+1)
			}
		}
	}
}

func engineAlias(rep *Report) {
	subs := allSubjects()
	n := perType(120, 5000)
	only := onlyIndex()
	arena := newArena(64)
	for ti, s := range subs {
		rep.Types = append(rep.Types, string(s.FullName))
		d := s.Zero.ProtoReflect().Descriptor()
		for i := 0; i < n; i++ {
			if !mineCase(ti, i) {
				continue
			}
			if only >= 0 && i != only {
				continue
			}
			guardCase(rep, "C07", "alias", string(s.FullName), i, func() { aliasCase(rep, arena, s, d, i) })
			arena.prot(syscall.PROT_READ | syscall.PROT_WRITE)
		}
	}
}

type roOp struct {
	name string
	f    func(m proto.Message, other proto.Message)
}

func readOnlyOps() []roOp {
	walk := func(m proto.Message, _ proto.Message) { _ = ReflToIR(m.ProtoReflect()) }
	return []roOp{
		{"Size", func(m, _ proto.Message) { _ = proto.Size(m) }},
		{"Size(det)", func(m, _ proto.Message) { _ = detOpts.Size(m) }},
		{"Marshal", func(m, _ proto.Message) { _, _ = plainOpts.Marshal(m) }},
		{"Marshal(det)", func(m, _ proto.Message) { _, _ = detOpts.Marshal(m) }},
		{"MarshalAppend", func(m, _ proto.Message) { _, _ = plainOpts.MarshalAppend(make([]byte, 3, 8), m) }},
		{"ProtoMethods.Marshal(partial)", func(m, _ proto.Message) {
			pm := m.ProtoReflect().ProtoMethods()
			_, _ = pm.Marshal(protoiface.MarshalInput{Message: m.ProtoReflect()})
			_ = pm.Size(protoiface.SizeInput{Message: m.ProtoReflect()})
		}},
		{"Equal(self)", func(m, _ proto.Message) { _ = proto.Equal(m, m) }},
		{"Equal(other)", func(m, o proto.Message) { _ = proto.Equal(m, o); _ = proto.Equal(o, m) }},
		{"Range+Get(all levels)", walk},
		{"Has/Get/WhichOneof(each field)", func(m, _ proto.Message) {
			r := m.ProtoReflect()
			fs := r.Descriptor().Fields()
			for i := 0; i < fs.Len(); i++ {
				fd := fs.Get(i)
				_ = r.Has(fd)
				v := r.Get(fd)
				switch {
				case fd.IsList():
					l := v.List()
					for j := 0; j < l.Len(); j++ {
						_ = l.Get(j)
					}
					_ = l.IsValid()
				case fd.IsMap():
					mp := v.Map()
					mp.Range(func(k protoreflect.MapKey, v protoreflect.Value) bool { _ = mp.Has(k); _ = mp.Get(k); return true })
					_ = mp.Len()
				case fd.Kind() == protoreflect.MessageKind:
					_ = v.Message().IsValid()
				}
			}
			os := r.Descriptor().Oneofs()
			for i := 0; i < os.Len(); i++ {
				_ = r.WhichOneof(os.Get(i))
			}
			_ = r.GetUnknown()
			_ = r.IsValid()
		}},
		{"Clone(from)", func(m, _ proto.Message) { _ = proto.Clone(m) }},
		{"Merge(from)", func(m, o proto.Message) { c := proto.Clone(o); proto.Merge(c, m) }},
		{"protojson.Marshal", func(m, _ proto.Message) { _, _ = protojson.Marshal(m) }},
		{"prototext.Marshal", func(m, _ proto.Message) { _, _ = prototext.Marshal(m) }},
		{"getters+String", func(m, _ proto.Message) {
			rv := reflect.ValueOf(m)
			for i := 0; i < rv.NumMethod(); i++ {
				mt := rv.Type().Method(i)
				if len(mt.Name) > 3 && mt.Name[:3] == "Get" && mt.Type.NumIn() == 1 && mt.Type.NumOut() == 1 {
					rv.Method(i).Call(nil)
				}
			}
			if s, ok := m.(fmt.Stringer); ok {
				_ = s.String()
			}
		}},
		{"CheckInitialized", func(m, _ proto.Message) { _ = proto.CheckInitialized(m) }},
	}
}

var roOps = readOnlyOps()

func aliasCase(rep *Report, arena *guardArena, s *glue.Subject, d MD, idx int) {
	tn := string(s.FullName)
	seed := caseSeed(*flagSeed, tn, idx, "alias")
	o := defaultGen()
	o.LongValues = idx%9 == 0
	if idx%5 == 2 {
		o.PFill = 0.9
	}
	g := NewGen(seed, o)
	r := rand.New(rand.NewSource(seed ^ 0xa11a5))
	w := &WireGen{R: r, G: g, Unknown: true, NonMin: false, Muts: map[string]int{}}
	v := g.Msg(d, 0)
	// exactly one unknown record at some levels matters (a first record may be sliced instead of copied)
	if idx%3 == 0 && len(v.Unk) == 0 {
		v.Unk = g.UnknownRecord(d, 0)
	}
	stream := w.Stream(v, 0)
	rc := replayCase{Engine: "alias", Type: tn, Seed: *flagSeed, Index: idx, Value: hx(stream)}
	hasBytes := bytes.Contains([]byte(fmt.Sprint(g.Cells)), []byte("bytes")) || bytes.Contains([]byte(fmt.Sprint(g.Cells)), []byte("string")) || len(v.Unk) > 0
	rep.Eval("C07", append([]byte(tn), stream...), len(stream) > 0)
	for k, c := range g.Cells {
		if k == "unknown" || bytes.Contains([]byte(k), []byte("bytes")) || bytes.Contains([]byte(k), []byte("string")) {
			rep.Count("C07", "cell/"+k, int64(c))
		}
	}
	_ = hasBytes
	if idx < 2 {
		rep.Sample("C07", map[string]interface{}{"type": tn, "input_hex": hx(stream)})
	}

	// every seventh case: the stream ends in a dangling tag byte, so Unmarshal fails after it has decoded everything
	// before it; the half-decoded message it leaves behind must not refer to the input either
	corrupted := idx%7 == 6
	if corrupted {
		stream = append(append([]byte{}, stream...), 0xff)
	}
	// ---- (a)+(b): page-guarded input
	in := arena.place(stream)
	if in == nil {
		rep.Inconclusive("C07", "input-larger-than-arena")
		return
	}
	inCopy := append([]byte{}, stream...)
	arena.prot(syscall.PROT_READ) // a write into the input faults
	m := newOf(s.Zero)
	variant := idx % 3
	var uerr error
	pan, pmsg := safely(func() {
		switch variant {
		case 0:
			uerr = proto.Unmarshal(in, m)
		case 1:
			uerr = proto.UnmarshalOptions{Merge: true}.Unmarshal(in, m)
		case 2:
			pm := m.ProtoReflect().ProtoMethods()
			_, uerr = pm.Unmarshal(protoiface.UnmarshalInput{Message: m.ProtoReflect(), Buf: in})
		}
	})
	if pan {
		arena.prot(syscall.PROT_READ | syscall.PROT_WRITE)
		rep.Violate("C07", "alias/unmarshal-faults-on-guarded-input", tn, "Unmarshal writes to its (read-only mapped) input or reads past its end: "+pmsg, rc)
		return
	}
	if uerr != nil && !corrupted {
		arena.prot(syscall.PROT_READ | syscall.PROT_WRITE)
		rep.Inconclusive("C07", "well-typed-stream-rejected")
		return
	}
	if corrupted {
		rep.Count("C07", "failed-unmarshals-then-input-unmapped", 1)
	}
	if !bytes.Equal(in, inCopy) {
		rep.Violate("C07", "alias/unmarshal-modifies-input", tn, "input bytes changed during Unmarshal", rc)
	}
	fp1 := Fingerprint(m)
	b1, _ := detOpts.Marshal(m)
	arena.scribbleAndUnmap() // overwrite the input, then make it inaccessible: any retained alias changes or faults
	rep.Count("C07", "page-guard-cycles", 1)
	var fp2 string
	var b2 []byte
	pan, pmsg = safely(func() {
		fp2 = Fingerprint(m)
		b2, _ = detOpts.Marshal(m)
		_ = StructToIR(m)
		if u := m.ProtoReflect().GetUnknown(); len(u) > 0 {
			_ = append([]byte{}, u...)
		}
	})
	arena.prot(syscall.PROT_READ | syscall.PROT_WRITE)
	if pan {
		rep.Violate("C07", "alias/message-aliases-input(fault)", tn, "after the input was unmapped, reading the message faults: "+pmsg, rc)
		return
	}
	if fp1 != fp2 || !bytes.Equal(b1, b2) {
		rep.Violate("C07", "alias/message-aliases-input(changed)", tn, "overwriting the input changed the message: "+firstDiff(b1, b2), rc)
		return
	}
	if corrupted {
		return
	}

	// ---- (d) read-only calls leave the Go struct unchanged, also with empty-but-allocated containers
	subj := m
	if idx%2 == 1 {
		subj = BuildStruct(s.Zero, v)
		if idx%4 == 3 {
			nilToEmpty(reflect.ValueOf(subj), 0)
			rep.Count("C07", "subjects-with-empty-allocated-containers", 1)
		}
	}
	if idx%4 == 1 {
		// struct-level state: nil message pointers as list elements / map values (read as empty messages)
		if n := nilOutMessages(reflect.ValueOf(subj), r, 0); n > 0 {
			rep.Count("C07", "subjects-with-nil-elements", 1)
		}
	}
	if idx%8 == 5 || idx%8 == 3 {
		// struct-level state: strings that are not valid UTF-8 (the calls may fail, they may not "repair" the message)
		if n := invalidateStrings(reflect.ValueOf(subj), r, 0); n > 0 {
			rep.Count("C07", "subjects-with-invalid-utf8-strings", 1)
		}
	}
	other := BuildStruct(s.Zero, g.Msg(d, 0))
	for _, op := range roOps {
		before := Fingerprint(subj)
		pan, pmsg = safely(func() { op.f(subj, other) })
		after := Fingerprint(subj)
		rep.Count("C07", "readonly-op/"+op.name, 1)
		if before != after {
			rep.Violate("C07", "alias/readonly-call-mutates-struct/"+op.name, tn, fmt.Sprintf("%s changed the Go struct (panicked=%v)", op.name, pan), rc)
			break
		}
	}

	// ---- (c0) the bytes already in the caller's buffer stay the caller's: an appending Marshal leaves them alone, in
	// the slice it returns and in the caller's own array (with and without spare capacity, both entry points)
	{
		prefix := []byte("\x00caller-owned\xff")
		for _, spare := range []int{0, 1 << 16} {
			buf := make([]byte, len(prefix), len(prefix)+spare)
			copy(buf, prefix)
			var o []byte
			var e error
			entry := "MarshalOptions.MarshalAppend"
			pan, _ = safely(func() {
				if pm := subj.ProtoReflect().ProtoMethods(); idx%2 == 1 && pm != nil && pm.Marshal != nil {
					entry = "ProtoMethods.Marshal(Buf=prefix)"
					var mo protoiface.MarshalOutput
					mo, e = pm.Marshal(protoiface.MarshalInput{Message: subj.ProtoReflect(), Buf: buf})
					o = mo.Buf
				} else {
					o, e = plainOpts.MarshalAppend(buf, subj)
				}
			})
			if pan || e != nil {
				continue // C01/C04 territory
			}
			rep.Count("C07", "caller-buffer-prefix-checks", 1)
			if !bytes.Equal(buf[:len(prefix)], prefix) || len(o) < len(prefix) || !bytes.Equal(o[:len(prefix)], prefix) {
				rep.Violate("C07", "alias/marshal-disturbs-caller-buffer", tn, fmt.Sprintf("%s with %d bytes already in the buffer (spare capacity %d) overwrote them", entry, len(prefix), spare), rc)
				break
			}
		}
	}

	// ---- (c) Marshal output shares no memory with the message
	type outcase struct {
		name string
		f    func() ([]byte, error)
	}
	outs := []outcase{
		{"proto.Marshal", func() ([]byte, error) { return plainOpts.Marshal(subj) }},
		{"Marshal(det)", func() ([]byte, error) { return detOpts.Marshal(subj) }},
		{"MarshalAppend(nil)", func() ([]byte, error) { return plainOpts.MarshalAppend(nil, subj) }},
		{"MarshalAppend(empty)", func() ([]byte, error) { return plainOpts.MarshalAppend(make([]byte, 0), subj) }},
		{"ProtoMethods.Marshal(Buf=nil)", func() ([]byte, error) {
			o, e := subj.ProtoReflect().ProtoMethods().Marshal(protoiface.MarshalInput{Message: subj.ProtoReflect()})
			return o.Buf, e
		}},
		{"ProtoMethods.Marshal(Buf=empty)", func() ([]byte, error) {
			o, e := subj.ProtoReflect().ProtoMethods().Marshal(protoiface.MarshalInput{Message: subj.ProtoReflect(), Buf: make([]byte, 0)})
			return o.Buf, e
		}},
	}
	oc := outs[idx%len(outs)]
	var out []byte
	var merr error
	pan, pmsg = safely(func() { out, merr = oc.f() })
	if pan || merr != nil {
		return // C01/C04 territory
	}
	// the bytes handed out belong to the caller: later marshals (of this or another message, through any entry
	// point) leave them alone
	first := append([]byte{}, out...)
	pan, _ = safely(func() {
		for _, x := range []proto.Message{other, subj} {
			_, _ = plainOpts.Marshal(x)
			_, _ = detOpts.MarshalAppend(nil, x)
			if pm := x.ProtoReflect().ProtoMethods(); pm != nil && pm.Marshal != nil {
				_, _ = pm.Marshal(protoiface.MarshalInput{Message: x.ProtoReflect()})
				_, _ = pm.Marshal(protoiface.MarshalInput{Message: x.ProtoReflect(), Buf: make([]byte, 0)})
			}
		}
	})
	rep.Count("C07", "earlier-output-intact-checks", 1)
	if !bytes.Equal(out, first) {
		rep.Violate("C07", "alias/marshal-outputs-share-memory", tn, oc.name+": the bytes returned by an earlier Marshal changed when other messages were marshalled afterwards: "+firstDiff(out, first), rc)
		return
	}
	fpA := Fingerprint(subj)
	for i := range out {
		out[i] ^= 0xff
	}
	if Fingerprint(subj) != fpA {
		rep.Violate("C07", "alias/marshal-output-aliases-message", tn, oc.name+": writing to the returned bytes changed the message", rc)
		return
	}
	for i := range out {
		out[i] ^= 0xff
	}
	saved := append([]byte{}, out...)
	nflip := 0
	flipByteSlices(reflect.ValueOf(subj), 0, &nflip)
	rep.Count("C07", "message-bytes-flipped", int64(nflip))
	if !bytes.Equal(out, saved) {
		rep.Violate("C07", "alias/marshal-output-aliases-message", tn, oc.name+": changing the message's byte slices changed the bytes returned earlier", rc)
	}
	rep.Count("C07", "output-alias-checks/"+oc.name, 1)

	// ---- (c1) a message that holds nothing but unknown fields: what Marshal hands out is still a copy, not the
	// message's own unknown-field buffer
	if idx%4 == 1 {
		only := newOf(s.Zero)
		od := only.ProtoReflect().Descriptor()
		num := protowire.Number(536870000)
		for od.Fields().ByNumber(num) != nil || od.ExtensionRanges().Has(num) {
			num--
		}
		raw := protowire.AppendVarint(protowire.AppendTag(nil, num, protowire.VarintType), uint64(idx)+1)
		raw = protowire.AppendBytes(protowire.AppendTag(raw, num, protowire.BytesType), []byte("nothing-but-unknown"))
		if idx%8 == 1 {
			_ = proto.Unmarshal(raw, only) // the buffer as the decoder leaves it (spare capacity after several records)
		} else {
			only.ProtoReflect().SetUnknown(append(make([]byte, 0, len(raw)+64), raw...))
		}
		entries := []outcase{
			{"proto.Marshal", func() ([]byte, error) { return plainOpts.Marshal(only) }},
			{"Marshal(det)", func() ([]byte, error) { return detOpts.Marshal(only) }},
			{"MarshalAppend(nil)", func() ([]byte, error) { return plainOpts.MarshalAppend(nil, only) }},
			{"ProtoMethods.Marshal(Buf=nil)", func() ([]byte, error) {
				pm := only.ProtoReflect().ProtoMethods()
				if pm == nil || pm.Marshal == nil {
					return plainOpts.Marshal(only)
				}
				o, e := pm.Marshal(protoiface.MarshalInput{Message: only.ProtoReflect()})
				return o.Buf, e
			}},
		}
		for _, en := range entries {
			var o []byte
			var e error
			if pan, _ := safely(func() { o, e = en.f() }); pan || e != nil || len(o) == 0 {
				continue
			}
			before := append([]byte{}, only.ProtoReflect().GetUnknown()...)
			for i := range o {
				o[i] ^= 0xff
			}
			o = append(o, 0xEE, 0xEE, 0xEE, 0xEE) // the caller goes on using its bytes
			rep.Count("C07", "output-alias-checks/unknown-only-message", 1)
			if !bytes.Equal(only.ProtoReflect().GetUnknown(), before) {
				rep.Violate("C07", "alias/marshal-output-aliases-message", tn, en.name+" of a message holding only unknown fields: writing to the returned bytes changed the message's unknown fields", rc)
				break
			}
		}
	}

	// ---- (e) decoding into a message that is already in use.  The input may be the very buffer one of the message's
	// own bytes fields (or its unknown-field set) still refers to ("unwrap in place"): Unmarshal must not write into it.
	if idx%4 == 2 {
		for which := 0; which < 2; which++ {
			E := BuildStruct(s.Zero, v)
			enc := make([]byte, len(stream), len(stream)+64)
			copy(enc, stream)
			if which == 0 {
				bf := topBytesFields(reflect.ValueOf(E))
				if len(bf) == 0 {
					continue
				}
				bf[idx/4%len(bf)].SetBytes(enc)
			} else {
				E.ProtoReflect().SetUnknown(enc)
			}
			pan, pmsg = safely(func() { uerr = proto.Unmarshal(enc, E) })
			rep.Count("C07", "unwrap-in-place-decodes", 1)
			if pan {
				continue // totality is C06's
			}
			if !bytes.Equal(enc, stream) {
				rep.Violate("C07", "alias/unmarshal-modifies-input(buffer-held-by-the-target)", tn, fmt.Sprintf("Unmarshal into a message whose %s referred to the input buffer changed the input: %s", []string{"bytes field", "unknown-field set"}[which], firstDiff(enc, stream)), rc)
				break
			}
			if uerr == nil {
				// and the result does not alias it either
				before := SpecEncode(Canon(StructToIR(E)))
				for i := range enc {
					enc[i] ^= 0x5a
				}
				if after := SpecEncode(Canon(StructToIR(E))); !bytes.Equal(before, after) {
					rep.Violate("C07", "alias/message-aliases-input(changed)", tn, "after decoding in place, overwriting the input changed the message: "+firstDiff(before, after), rc)
					break
				}
			}
		}
	}
	// ---- (f) packing into an Any whose old value buffer is shared with one of the message's bytes fields: the pack
	// reads the message and may not write to it
	if idx%4 == 0 {
		E := BuildStruct(s.Zero, v)
		if bf := topBytesFields(reflect.ValueOf(E)); len(bf) > 0 {
			big := make([]byte, 8, 8+2*len(stream)+512)
			copy(big, "payload!")
			bf[idx/4%len(bf)].SetBytes(big[:8])
			dst := &anypb.Any{TypeUrl: "/old", Value: big[:8]}
			fp := Fingerprint(E)
			pan, pmsg = safely(func() { _ = anyutil.MarshalFrom(dst, E, proto.MarshalOptions{}) })
			rep.Count("C07", "readonly-op/anyutil.MarshalFrom(shared old buffer)", 1)
			if Fingerprint(E) != fp {
				rep.Violate("C07", "alias/readonly-call-mutates-struct/anyutil.MarshalFrom", tn, fmt.Sprintf("packing the message into an Any whose previous value buffer it shares changed the message (panicked=%v %s)", pan, trunc(pmsg)), rc)
			}
		}
	}
}

// topBytesFields returns the settable []byte fields of the message struct itself (singular bytes fields).
func topBytesFields(rv reflect.Value) []reflect.Value {
	for rv.Kind() == reflect.Ptr {
		rv = rv.Elem()
	}
	var out []reflect.Value
	if rv.Kind() != reflect.Struct {
		return nil
	}
	for i := 0; i < rv.NumField(); i++ {
		sf := rv.Type().Field(i)
		if sf.PkgPath == "" && sf.Type.Kind() == reflect.Slice && sf.Type.Elem().Kind() == reflect.Uint8 && strings.HasPrefix(sf.Tag.Get("protobuf"), "bytes,") {
			out = append(out, rv.Field(i))
		}
	}
	return out
}

// nilOutMessages sets about half of the message-typed list elements and map
// values to nil pointers; returns how many were changed.
func nilOutMessages(rv reflect.Value, r *rand.Rand, depth int) int {
	if depth > 100 {
		return 0
	}
	n := 0
	switch rv.Kind() {
	case reflect.Ptr, reflect.Interface:
		if !rv.IsNil() {
			n += nilOutMessages(rv.Elem(), r, depth+1)
		}
	case reflect.Struct:
		t := rv.Type()
		for i := 0; i < rv.NumField(); i++ {
			if t.Field(i).PkgPath != "" {
				continue
			}
			n += nilOutMessages(rv.Field(i), r, depth+1)
		}
	case reflect.Slice:
		if rv.Type().Elem().Kind() == reflect.Ptr && rv.Type().Elem().Elem().Kind() == reflect.Struct {
			for i := 0; i < rv.Len(); i++ {
				if r.Intn(2) == 0 {
					rv.Index(i).Set(reflect.Zero(rv.Type().Elem()))
					n++
				} else {
					n += nilOutMessages(rv.Index(i), r, depth+1)
				}
			}
		}
	case reflect.Map:
		if rv.Type().Elem().Kind() == reflect.Ptr && rv.Type().Elem().Elem().Kind() == reflect.Struct {
			for _, k := range rv.MapKeys() {
				if r.Intn(2) == 0 {
					rv.SetMapIndex(k, reflect.Zero(rv.Type().Elem()))
					n++
				} else {
					n += nilOutMessages(rv.MapIndex(k), r, depth+1)
				}
			}
		}
	}
	return n
}

// invalidateStrings overwrites about half of the string values reachable in the struct (fields, list elements, map
// values, oneof members, nested messages) with strings that are not valid UTF-8.
func invalidateStrings(rv reflect.Value, r *rand.Rand, depth int) int {
	if depth > 100 {
		return 0
	}
	bad := []string{"\xff", "ok\xc0\x80", "\xed\xa0\x80tail", "a\xf8\x88\x80\x80\x80", "\x80"}
	n := 0
	switch rv.Kind() {
	case reflect.Ptr, reflect.Interface:
		if !rv.IsNil() {
			n += invalidateStrings(rv.Elem(), r, depth+1)
		}
	case reflect.Struct:
		for i := 0; i < rv.NumField(); i++ {
			if rv.Type().Field(i).PkgPath != "" {
				continue
			}
			n += invalidateStrings(rv.Field(i), r, depth+1)
		}
	case reflect.String:
		if rv.CanSet() && r.Intn(2) == 0 {
			rv.SetString(bad[r.Intn(len(bad))])
			n++
		}
	case reflect.Slice:
		if rv.Type().Elem().Kind() == reflect.String || rv.Type().Elem().Kind() == reflect.Ptr {
			for i := 0; i < rv.Len(); i++ {
				n += invalidateStrings(rv.Index(i), r, depth+1)
			}
		}
	case reflect.Map:
		for _, k := range rv.MapKeys() {
			switch rv.Type().Elem().Kind() {
			case reflect.String:
				if r.Intn(2) == 0 {
					rv.SetMapIndex(k, reflect.ValueOf(bad[r.Intn(len(bad))]).Convert(rv.Type().Elem()))
					n++
				}
			case reflect.Ptr:
				n += invalidateStrings(rv.MapIndex(k), r, depth+1)
			}
		}
	}
	return n
}
