package main

// A small reader for the proto3 subset used by the repository's own .proto
// files (protoc is not installed).  It exists so that the descriptors registered
// by the checked-in generated files can be compared with an independent
// statement of the schema.  Any construct it does not know makes the file
// "inconclusive" (never a pass, never a violation).

import (
	"fmt"
	"os"
	"strconv"
	"strings"
	"unicode"
)

type pOption struct {
	Name   string // "deprecated" or "(cosmos_proto.scalar)"
	Value  string // literal text (strings unquoted)
	IsStr  bool
	Nested string // raw text of an aggregate value { ... }
}

type pField struct {
	Name, Type string
	Number     int
	Repeated   bool
	Optional   bool
	Oneof      string
	MapKey     string // non-empty for map fields (Type is the value type)
	Options    []pOption
}

type pEnum struct {
	Name    string
	Values  []pEnumValue
	Options []pOption
}

type pEnumValue struct {
	Name    string
	Number  int
	Options []pOption
}

type pMessage struct {
	Name     string
	Fields   []pField
	Oneofs   []string
	Messages []*pMessage
	Enums    []*pEnum
	Options  []pOption
}

type pMethod struct {
	Name, In, Out      string
	ClientStr, ServStr bool
	Options            []pOption
}

type pService struct {
	Name    string
	Methods []pMethod
	Options []pOption
}

type pExtend struct {
	Extendee string
	Fields   []pField
}

type pFile struct {
	Syntax, Package string
	Imports         []string
	Options         []pOption
	Messages        []*pMessage
	Enums           []*pEnum
	Services        []*pService
	Extends         []*pExtend
}

type pLexer struct {
	toks []string
	pos  int
}

func lexProto(src string) ([]string, error) {
	var toks []string
	i := 0
	for i < len(src) {
		c := src[i]
		switch {
		case c == ' ' || c == '\t' || c == '\n' || c == '\r':
			i++
		case strings.HasPrefix(src[i:], "//"):
			for i < len(src) && src[i] != '\n' {
				i++
			}
		case strings.HasPrefix(src[i:], "/*"):
			j := strings.Index(src[i+2:], "*/")
			if j < 0 {
				return nil, fmt.Errorf("unterminated comment")
			}
			i += j + 4
		case c == '"' || c == '\'':
			j := i + 1
			var sb strings.Builder
			for j < len(src) && src[j] != c {
				if src[j] == '\\' && j+1 < len(src) {
					switch src[j+1] {
					case 'n':
						sb.WriteByte('\n')
					case 't':
						sb.WriteByte('\t')
					case '\\', '"', '\'':
						sb.WriteByte(src[j+1])
					default:
						return nil, fmt.Errorf("unsupported escape \\%c", src[j+1])
					}
					j += 2
					continue
				}
				sb.WriteByte(src[j])
				j++
			}
			if j >= len(src) {
				return nil, fmt.Errorf("unterminated string")
			}
			toks = append(toks, "\x00"+sb.String()) // string tokens are marked with a NUL prefix
			i = j + 1
		case unicode.IsLetter(rune(c)) || c == '_' || c == '.' && i+1 < len(src) && (unicode.IsLetter(rune(src[i+1])) || src[i+1] == '_'):
			j := i + 1
			for j < len(src) && (unicode.IsLetter(rune(src[j])) || unicode.IsDigit(rune(src[j])) || src[j] == '_' || src[j] == '.') {
				j++
			}
			toks = append(toks, src[i:j])
			i = j
		case unicode.IsDigit(rune(c)) || (c == '-' && i+1 < len(src) && unicode.IsDigit(rune(src[i+1]))):
			j := i + 1
			for j < len(src) && (unicode.IsDigit(rune(src[j])) || unicode.IsLetter(rune(src[j])) || src[j] == '.') {
				j++
			}
			toks = append(toks, src[i:j])
			i = j
		default:
			toks = append(toks, string(c))
			i++
		}
	}
	return toks, nil
}

func (l *pLexer) peek() string {
	if l.pos < len(l.toks) {
		return l.toks[l.pos]
	}
	return ""
}
func (l *pLexer) next() string { t := l.peek(); l.pos++; return t }
func (l *pLexer) expect(t string) error {
	if g := l.next(); g != t {
		return fmt.Errorf("expected %q, got %q (token %d)", t, g, l.pos)
	}
	return nil
}

func isStrTok(t string) bool { return strings.HasPrefix(t, "\x00") }

// option name: ident or (full.name) possibly followed by .sub
func (l *pLexer) optionName() (string, error) {
	t := l.next()
	if t == "(" {
		n := l.next()
		if err := l.expect(")"); err != nil {
			return "", err
		}
		name := "(" + strings.TrimPrefix(n, ".") + ")"
		for strings.HasPrefix(l.peek(), ".") {
			name += l.next()
		}
		return name, nil
	}
	return t, nil
}

func (l *pLexer) optionValue() (pOption, error) {
	var o pOption
	t := l.next()
	if t == "{" {
		depth := 1
		var parts []string
		for depth > 0 {
			x := l.next()
			if x == "" {
				return o, fmt.Errorf("unterminated aggregate option")
			}
			if x == "{" {
				depth++
			}
			if x == "}" {
				depth--
				if depth == 0 {
					break
				}
			}
			parts = append(parts, strings.TrimPrefix(x, "\x00"))
		}
		o.Nested = strings.Join(parts, " ")
		return o, nil
	}
	if isStrTok(t) {
		o.IsStr = true
		o.Value = t[1:]
		for isStrTok(l.peek()) { // adjacent string literals concatenate
			o.Value += l.next()[1:]
		}
		return o, nil
	}
	o.Value = t
	return o, nil
}

func (l *pLexer) optionStmt() (pOption, error) {
	n, err := l.optionName()
	if err != nil {
		return pOption{}, err
	}
	if err := l.expect("="); err != nil {
		return pOption{}, err
	}
	o, err := l.optionValue()
	o.Name = n
	return o, err
}

func (l *pLexer) bracketOptions() ([]pOption, error) {
	var out []pOption
	if l.peek() != "[" {
		return nil, nil
	}
	l.next()
	for {
		o, err := l.optionStmt()
		if err != nil {
			return nil, err
		}
		out = append(out, o)
		t := l.next()
		if t == "]" {
			return out, nil
		}
		if t != "," {
			return nil, fmt.Errorf("expected , or ] in field options, got %q", t)
		}
	}
}

func (l *pLexer) field(oneof string) (pField, error) {
	var f pField
	f.Oneof = oneof
	t := l.next()
	switch t {
	case "repeated":
		f.Repeated = true
		t = l.next()
	case "optional":
		f.Optional = true
		t = l.next()
	case "required":
		return f, fmt.Errorf("proto2 label")
	}
	if t == "map" {
		if err := l.expect("<"); err != nil {
			return f, err
		}
		f.MapKey = l.next()
		if err := l.expect(","); err != nil {
			return f, err
		}
		f.Type = l.next()
		if err := l.expect(">"); err != nil {
			return f, err
		}
	} else {
		f.Type = t
	}
	f.Name = l.next()
	if err := l.expect("="); err != nil {
		return f, err
	}
	n, err := strconv.Atoi(l.next())
	if err != nil {
		return f, fmt.Errorf("field number: %v", err)
	}
	f.Number = n
	opts, err := l.bracketOptions()
	if err != nil {
		return f, err
	}
	f.Options = opts
	return f, l.expect(";")
}

func (l *pLexer) enum() (*pEnum, error) {
	e := &pEnum{Name: l.next()}
	if err := l.expect("{"); err != nil {
		return nil, err
	}
	for {
		t := l.peek()
		switch t {
		case "}":
			l.next()
			if l.peek() == ";" {
				l.next()
			}
			return e, nil
		case "option":
			l.next()
			o, err := l.optionStmt()
			if err != nil {
				return nil, err
			}
			e.Options = append(e.Options, o)
			if err := l.expect(";"); err != nil {
				return nil, err
			}
		case ";":
			l.next()
		case "reserved":
			return nil, fmt.Errorf("reserved not supported")
		default:
			name := l.next()
			if err := l.expect("="); err != nil {
				return nil, err
			}
			n, err := strconv.Atoi(l.next())
			if err != nil {
				return nil, err
			}
			opts, err := l.bracketOptions()
			if err != nil {
				return nil, err
			}
			if err := l.expect(";"); err != nil {
				return nil, err
			}
			e.Values = append(e.Values, pEnumValue{Name: name, Number: n, Options: opts})
		}
	}
}

func (l *pLexer) message() (*pMessage, error) {
	m := &pMessage{Name: l.next()}
	if err := l.expect("{"); err != nil {
		return nil, err
	}
	for {
		t := l.peek()
		switch t {
		case "":
			return nil, fmt.Errorf("unexpected end of file in message %s", m.Name)
		case "}":
			l.next()
			if l.peek() == ";" {
				l.next()
			}
			return m, nil
		case ";":
			l.next()
		case "message":
			l.next()
			c, err := l.message()
			if err != nil {
				return nil, err
			}
			m.Messages = append(m.Messages, c)
		case "enum":
			l.next()
			e, err := l.enum()
			if err != nil {
				return nil, err
			}
			m.Enums = append(m.Enums, e)
		case "option":
			l.next()
			o, err := l.optionStmt()
			if err != nil {
				return nil, err
			}
			m.Options = append(m.Options, o)
			if err := l.expect(";"); err != nil {
				return nil, err
			}
		case "oneof":
			l.next()
			name := l.next()
			m.Oneofs = append(m.Oneofs, name)
			if err := l.expect("{"); err != nil {
				return nil, err
			}
			for l.peek() != "}" {
				if l.peek() == "option" {
					return nil, fmt.Errorf("oneof options not supported")
				}
				f, err := l.field(name)
				if err != nil {
					return nil, err
				}
				m.Fields = append(m.Fields, f)
			}
			l.next()
			if l.peek() == ";" {
				l.next()
			}
		case "reserved", "extensions", "extend", "group":
			return nil, fmt.Errorf("%s not supported", t)
		default:
			f, err := l.field("")
			if err != nil {
				return nil, err
			}
			m.Fields = append(m.Fields, f)
		}
	}
}

func (l *pLexer) service() (*pService, error) {
	s := &pService{Name: l.next()}
	if err := l.expect("{"); err != nil {
		return nil, err
	}
	for {
		switch l.peek() {
		case "}":
			l.next()
			return s, nil
		case ";":
			l.next()
		case "option":
			l.next()
			o, err := l.optionStmt()
			if err != nil {
				return nil, err
			}
			s.Options = append(s.Options, o)
			if err := l.expect(";"); err != nil {
				return nil, err
			}
		case "rpc":
			l.next()
			var m pMethod
			m.Name = l.next()
			if err := l.expect("("); err != nil {
				return nil, err
			}
			if l.peek() == "stream" {
				l.next()
				m.ClientStr = true
			}
			m.In = l.next()
			if err := l.expect(")"); err != nil {
				return nil, err
			}
			if err := l.expect("returns"); err != nil {
				return nil, err
			}
			if err := l.expect("("); err != nil {
				return nil, err
			}
			if l.peek() == "stream" {
				l.next()
				m.ServStr = true
			}
			m.Out = l.next()
			if err := l.expect(")"); err != nil {
				return nil, err
			}
			if l.peek() == "{" {
				l.next()
				for l.peek() != "}" {
					if l.peek() == ";" {
						l.next()
						continue
					}
					if err := l.expect("option"); err != nil {
						return nil, err
					}
					o, err := l.optionStmt()
					if err != nil {
						return nil, err
					}
					m.Options = append(m.Options, o)
					if err := l.expect(";"); err != nil {
						return nil, err
					}
				}
				l.next()
			} else if err := l.expect(";"); err != nil {
				return nil, err
			}
			s.Methods = append(s.Methods, m)
		default:
			return nil, fmt.Errorf("unexpected %q in service", l.peek())
		}
	}
}

func readProtoFile(path string) (*pFile, error) {
	b, err := os.ReadFile(path)
	if err != nil {
		return nil, err
	}
	toks, err := lexProto(string(b))
	if err != nil {
		return nil, err
	}
	l := &pLexer{toks: toks}
	f := &pFile{Syntax: "proto2"}
	for l.peek() != "" {
		switch t := l.next(); t {
		case ";":
		case "syntax":
			if err := l.expect("="); err != nil {
				return nil, err
			}
			f.Syntax = strings.TrimPrefix(l.next(), "\x00")
			if err := l.expect(";"); err != nil {
				return nil, err
			}
		case "package":
			f.Package = l.next()
			if err := l.expect(";"); err != nil {
				return nil, err
			}
		case "import":
			if l.peek() == "public" || l.peek() == "weak" {
				return nil, fmt.Errorf("import %s not supported", l.peek())
			}
			f.Imports = append(f.Imports, strings.TrimPrefix(l.next(), "\x00"))
			if err := l.expect(";"); err != nil {
				return nil, err
			}
		case "option":
			o, err := l.optionStmt()
			if err != nil {
				return nil, err
			}
			f.Options = append(f.Options, o)
			if err := l.expect(";"); err != nil {
				return nil, err
			}
		case "message":
			m, err := l.message()
			if err != nil {
				return nil, err
			}
			f.Messages = append(f.Messages, m)
		case "enum":
			e, err := l.enum()
			if err != nil {
				return nil, err
			}
			f.Enums = append(f.Enums, e)
		case "service":
			s, err := l.service()
			if err != nil {
				return nil, err
			}
			f.Services = append(f.Services, s)
		case "extend":
			ex := &pExtend{Extendee: l.next()}
			if err := l.expect("{"); err != nil {
				return nil, err
			}
			for l.peek() != "}" {
				fl, err := l.field("")
				if err != nil {
					return nil, err
				}
				ex.Fields = append(ex.Fields, fl)
			}
			l.next()
			f.Extends = append(f.Extends, ex)
		default:
			return nil, fmt.Errorf("unexpected top-level token %q", t)
		}
	}
	return f, nil
}
