package main

// Engine "nilread": C09 - nil and read-only empty messages are safe to read.
// Exhaustive over every subject type x every field x every listed read.

import (
	"bytes"
	"fmt"
	"github.com/cosmos/cosmos-proto/anyutil"
	"google.golang.org/protobuf/types/known/anypb"
	"reflect"
	"strings"

	"github.com/cosmos/cosmos-proto/zzverif/glue"
	"google.golang.org/protobuf/encoding/protojson"
	"google.golang.org/protobuf/encoding/prototext"
	"google.golang.org/protobuf/proto"
	"google.golang.org/protobuf/reflect/protoreflect"
	"google.golang.org/protobuf/types/dynamicpb"
)

func init() { engines["nilread"] = engineNilRead }

type nrCtx struct {
	rep *Report
	tn  string
}

func (c *nrCtx) bad(key, what, detail string) {
	c.rep.Violate("C09", "nilread/"+key, c.tn, what+": "+detail, map[string]interface{}{"engine": "nilread", "type": c.tn, "what": what})
}

// readsAsEmpty checks every read of an empty/invalid message view against the reference view.
func (c *nrCtx) readsAsEmpty(what string, m, ref protoreflect.Message, wantValid bool, depth int) {
	c.rep.Eval("C09", []byte(c.tn+"|"+what), true)
	d := ref.Descriptor()
	pan, pmsg := safely(func() {
		if m.IsValid() != wantValid {
			c.bad("isvalid", what, fmt.Sprintf("IsValid=%v want %v", m.IsValid(), wantValid))
		}
		if m.Descriptor().FullName() != d.FullName() {
			c.bad("descriptor", what, "wrong descriptor")
		}
	})
	if pan {
		c.bad("isvalid-panic", what, pmsg)
		return
	}
	fs := d.Fields()
	for i := 0; i < fs.Len(); i++ {
		fd := fs.Get(i)
		lfd := m.Descriptor().Fields().ByNumber(fd.Number())
		var has bool
		var got, want string
		var sub protoreflect.Message
		pan, pmsg = safely(func() {
			has = m.Has(lfd)
			v := m.Get(lfd)
			got = digestValue(lfd, v)
			want = digestValue(fd, ref.Get(fd))
			switch {
			case lfd.IsList():
				if v.List().IsValid() || v.List().Len() != 0 {
					c.bad("get-list", what+"."+string(fd.Name()), "Get of an unpopulated list is not an empty read-only view")
				}
			case lfd.IsMap():
				if v.Map().IsValid() || v.Map().Len() != 0 {
					c.bad("get-map", what+"."+string(fd.Name()), "Get of an unpopulated map is not an empty read-only view")
				}
			case lfd.Kind() == protoreflect.MessageKind:
				sub = v.Message()
			}
		})
		c.rep.Count("C09", "field-reads", 1)
		if pan {
			c.bad("read-panic", what+"."+string(fd.Name()), "Has/Get panics: "+pmsg)
			continue
		}
		if has {
			c.bad("has", what+"."+string(fd.Name()), "Has is true on an empty message")
		}
		if got != want {
			c.bad("get-default", what+"."+string(fd.Name()), fmt.Sprintf("Get returns %s, reference %s", trunc(got), trunc(want)))
		}
		if sub != nil && depth < 3 {
			// chains through unpopulated message fields
			c.readsAsEmpty(what+"."+string(fd.Name()), sub, ref.Get(fd).Message(), false, depth+1)
		}
	}
	pan, pmsg = safely(func() {
		n := 0
		m.Range(func(protoreflect.FieldDescriptor, protoreflect.Value) bool { n++; return true })
		if n != 0 {
			c.bad("range", what, fmt.Sprintf("Range visits %d fields of an empty message", n))
		}
		os := m.Descriptor().Oneofs()
		for i := 0; i < os.Len(); i++ {
			if f := m.WhichOneof(os.Get(i)); f != nil {
				c.bad("whichoneof", what, "WhichOneof is not nil on an empty message")
			}
		}
		if len(m.GetUnknown()) != 0 {
			c.bad("getunknown", what, "GetUnknown not empty")
		}
	})
	if pan {
		c.bad("read-panic", what, "Range/WhichOneof/GetUnknown panics: "+pmsg)
	}
	// generic library calls
	pm := m.Interface()
	libs := []struct {
		name string
		f    func()
	}{
		{"proto.Size", func() {
			if n := proto.Size(pm); n != 0 {
				panic(fmt.Sprintf("VIOLATION Size=%d", n))
			}
		}},
		{"proto.Marshal", func() {
			b, err := proto.Marshal(pm)
			if err != nil || len(b) != 0 {
				panic(fmt.Sprintf("VIOLATION Marshal -> %x, %v", b, err))
			}
			b, err = detOpts.MarshalAppend([]byte("pre"), pm)
			if err != nil || string(b) != "pre" {
				panic(fmt.Sprintf("VIOLATION MarshalAppend -> %x, %v", b, err))
			}
		}},
		{"proto.Equal", func() {
			// exactly as the reference: an invalid message equals only invalid messages
			fresh := pm.ProtoReflect().New().Interface()
			rm := ref.Interface()
			rfresh := ref.New().Interface()
			got := []bool{proto.Equal(pm, fresh), proto.Equal(fresh, pm), proto.Equal(pm, pm)}
			want := []bool{proto.Equal(rm, rfresh), proto.Equal(rfresh, rm), proto.Equal(rm, rm)}
			if fmt.Sprint(got) != fmt.Sprint(want) {
				panic(fmt.Sprintf("VIOLATION Equal(m,empty), Equal(empty,m), Equal(m,m) = %v, reference %v", got, want))
			}
		}},
		{"proto.Clone", func() {
			cl := proto.Clone(pm)
			if proto.Size(cl) != 0 {
				panic("VIOLATION Clone not empty")
			}
		}},
		{"proto.Merge(from)", func() {
			dst := pm.ProtoReflect().New().Interface()
			proto.Merge(dst, pm)
			if proto.Size(dst) != 0 {
				panic("VIOLATION Merge from an empty message changed dst")
			}
		}},
		{"protojson.Marshal", func() {
			a, e1 := protojson.Marshal(pm)
			b, e2 := protojson.Marshal(ref.Interface())
			if (e1 == nil) != (e2 == nil) || !bytes.Equal(a, b) {
				panic(fmt.Sprintf("VIOLATION protojson %q/%v reference %q/%v", a, e1, b, e2))
			}
		}},
		{"prototext.Marshal", func() {
			a, e1 := prototext.Marshal(pm)
			b, e2 := prototext.Marshal(ref.Interface())
			if (e1 == nil) != (e2 == nil) || !bytes.Equal(a, b) {
				panic(fmt.Sprintf("VIOLATION prototext %q/%v reference %q/%v", a, e1, b, e2))
			}
		}},
		{"CheckInitialized", func() {
			if err := proto.CheckInitialized(pm); err != nil {
				panic("VIOLATION " + err.Error())
			}
		}},
		{"anyutil.New/MarshalFrom", func() {
			// packing helpers accept the value exactly as the reference packer (anypb) does
			ra, rerr := anypb.New(pm)
			a, err := anyutil.New(pm)
			d2 := &anypb.Any{}
			err2 := anyutil.MarshalFrom(d2, pm, proto.MarshalOptions{Deterministic: true})
			if (err == nil) != (rerr == nil) || (err2 == nil) != (rerr == nil) {
				panic(fmt.Sprintf("VIOLATION anyutil.New err=%v, MarshalFrom err=%v, reference anypb.New err=%v", err, err2, rerr))
			}
			if rerr == nil && (!bytes.Equal(a.GetValue(), ra.GetValue()) || !bytes.Equal(d2.GetValue(), ra.GetValue()) || a.GetTypeUrl() != "/"+string(pm.ProtoReflect().Descriptor().FullName())) {
				panic(fmt.Sprintf("VIOLATION anyutil.New -> %q %x, reference value %x", a.GetTypeUrl(), a.GetValue(), ra.GetValue()))
			}
		}},
	}
	for _, l := range libs {
		pan, pmsg = safely(l.f)
		c.rep.Count("C09", "library-calls/"+l.name, 1)
		if pan {
			c.bad("library/"+l.name, what, pmsg)
		}
	}
}

// writesPanic: storing data into a read-only empty message/list/map must panic.
func (c *nrCtx) writesPanic(what string, m protoreflect.Message) {
	fs := m.Descriptor().Fields()
	mustPanic := func(op string, f func()) {
		pan, _ := safely(f)
		c.rep.Count("C09", "write-attempts", 1)
		if !pan {
			c.bad("write-silently-accepted/"+op, what, op+" on a read-only empty value does not panic")
		}
	}
	for i := 0; i < fs.Len(); i++ {
		fd := fs.Get(i)
		switch {
		case fd.IsList():
			mustPanic("Mutable(list)", func() { m.Mutable(fd) })
			l := m.Get(fd).List()
			mustPanic("List.Append", func() {
				if fd.Kind() == protoreflect.MessageKind {
					l.Append(l.NewElement())
				} else {
					l.Append(fd.Default())
				}
			})
		case fd.IsMap():
			mustPanic("Mutable(map)", func() { m.Mutable(fd) })
			mp := m.Get(fd).Map()
			mustPanic("Map.Set", func() {
				k := fd.MapKey().Default().MapKey()
				if fd.MapValue().Kind() == protoreflect.MessageKind {
					mp.Set(k, mp.NewValue())
				} else {
					mp.Set(k, fd.MapValue().Default())
				}
			})
		case fd.Kind() == protoreflect.MessageKind:
			mustPanic("Mutable(message)", func() { m.Mutable(fd) })
			mustPanic("Set(message)", func() { m.Set(fd, m.NewField(fd)) })
		default:
			v := fd.Default()
			if fd.Kind() == protoreflect.BytesKind {
				v = protoreflect.ValueOfBytes([]byte{1})
			}
			mustPanic("Set(scalar)", func() { m.Set(fd, v) })
		}
	}
	mustPanic("SetUnknown", func() { m.SetUnknown(protoreflect.RawFields{0xc0, 0x3e, 0x01}) })
}

func engineNilRead(rep *Report) {
	subs := subjectsForShard()
	for _, s := range subs {
		s := s
		rep.Types = append(rep.Types, string(s.FullName))
		guardCase(rep, "C09", "nilread", string(s.FullName), 0, func() { nilReadType(rep, s) })
	}
}

func nilReadType(rep *Report, s *glue.Subject) {
	{
		tn := string(s.FullName)
		c := &nrCtx{rep: rep, tn: tn}
		d := s.Zero.ProtoReflect().Descriptor()
		dynZero := dynamicpb.NewMessageType(d).Zero()
		if len(rep.P("C09").Samples) < 3 {
			rep.Sample("C09", map[string]interface{}{"type": tn, "fields": d.Fields().Len(), "subjects": "(*T)(nil), Type().Zero(), new(T), Get(unset message).Message() chains, nil list elements, nil map values, oneof wrappers holding nil"})
		}
		// (a) typed nil pointer
		nilPtr := reflect.Zero(reflect.TypeOf(s.Zero)).Interface().(proto.Message)
		var m protoreflect.Message
		pan, pmsg := safely(func() { m = nilPtr.ProtoReflect() })
		if pan {
			c.bad("protoreflect-panic", "(*T)(nil)", pmsg)
			return
		}
		c.readsAsEmpty("(*T)(nil)", m, dynZero, false, 0)
		c.writesPanic("(*T)(nil)", m)
		// the plain Go getters of the nil pointer are reads as well
		rv := reflect.ValueOf(nilPtr)
		for mi := 0; mi < rv.NumMethod(); mi++ {
			mt := rv.Type().Method(mi)
			if len(mt.Name) > 3 && mt.Name[:3] == "Get" && mt.Type.NumIn() == 1 && mt.Type.NumOut() == 1 {
				pan, pmsg := safely(func() { rv.Method(mi).Call(nil) })
				c.rep.Count("C09", "go-getters-on-nil", 1)
				if pan {
					c.bad("getter-panic", "(*T)(nil)."+mt.Name+"()", pmsg)
				}
			}
		}
		// (b) Type().Zero()
		pan, pmsg = safely(func() { m = s.Zero.ProtoReflect().Type().Zero() })
		if pan {
			c.bad("type-zero-panic", "Type().Zero()", pmsg)
		} else {
			c.readsAsEmpty("Type().Zero()", m, dynZero, false, 0)
			c.writesPanic("Type().Zero()", m)
		}
		// (c) new(T): valid and empty
		c.readsAsEmpty("new(T)", newOf(s.Zero).ProtoReflect(), dynamicpb.NewMessage(d).ProtoReflect(), true, 0)
		// (c') new(T) whose lists/maps/bytes/unknown buffer are allocated but empty: the same empty message
		E := newOf(s.Zero)
		nilToEmpty(reflect.ValueOf(E), 0)
		c.readsAsEmpty("new(T) with empty allocated containers", E.ProtoReflect(), dynamicpb.NewMessage(d).ProtoReflect(), true, 2)
		{
			er := E.ProtoReflect()
			efs := d.Fields()
			for i := 0; i < efs.Len(); i++ {
				fd := efs.Get(i)
				switch {
				case fd.IsList():
					l := er.Get(fd).List()
					pan, _ := safely(func() {
						if fd.Kind() == protoreflect.MessageKind {
							l.Append(l.NewElement())
						} else {
							l.Append(fd.Default())
						}
					})
					c.rep.Count("C09", "write-attempts", 1)
					if !pan {
						c.bad("write-silently-accepted/List.Append", "Get("+string(fd.Name())+") of an empty allocated list", "Append through the view returned by Get for an unpopulated list does not panic")
						E = newOf(s.Zero)
						nilToEmpty(reflect.ValueOf(E), 0)
						er = E.ProtoReflect()
					}
				case fd.IsMap():
					mp := er.Get(fd).Map()
					pan, _ := safely(func() {
						k := fd.MapKey().Default().MapKey()
						if fd.MapValue().Kind() == protoreflect.MessageKind {
							mp.Set(k, mp.NewValue())
						} else {
							mp.Set(k, fd.MapValue().Default())
						}
					})
					c.rep.Count("C09", "write-attempts", 1)
					if !pan {
						c.bad("write-silently-accepted/Map.Set", "Get("+string(fd.Name())+") of an empty allocated map", "Set through the view returned by Get for an unpopulated map does not panic")
						E = newOf(s.Zero)
						nilToEmpty(reflect.ValueOf(E), 0)
						er = E.ProtoReflect()
					}
				}
			}
		}
		// (d) read-only views obtained from Get on unpopulated composite fields of new(T)
		fresh := newOf(s.Zero).ProtoReflect()
		fs := d.Fields()
		for i := 0; i < fs.Len(); i++ {
			fd := fs.Get(i)
			if fd.Kind() == protoreflect.MessageKind && !fd.IsList() && !fd.IsMap() {
				var sub protoreflect.Message
				pan, pmsg = safely(func() { sub = fresh.Get(fd).Message() })
				if pan {
					c.bad("read-panic", "new(T)."+string(fd.Name()), pmsg)
					continue
				}
				c.writesPanic("Get(unset "+string(fd.Name())+").Message()", sub)
			}
		}
		// (d') a message-typed oneof member read while another member of the oneof is set
		ods := d.Oneofs()
		for i := 0; i < ods.Len(); i++ {
			od := ods.Get(i)
			if od.IsSynthetic() || od.Fields().Len() < 2 {
				continue
			}
			for j := 0; j < od.Fields().Len(); j++ {
				fd := od.Fields().Get(j)
				if fd.Kind() != protoreflect.MessageKind {
					continue
				}
				sib := od.Fields().Get((j + 1) % od.Fields().Len())
				var sv Val
				if sib.Kind() == protoreflect.MessageKind {
					sv = Val{M: &Msg{D: sib.Message()}}
				}
				p := BuildStruct(s.Zero, &Msg{D: d, F: []*FVal{{FD: sib, S: &sv}}})
				dy := BuildDyn(&Msg{D: d, F: []*FVal{{FD: sib, S: &sv}}})
				var sub protoreflect.Message
				pan, pmsg = safely(func() { sub = p.ProtoReflect().Get(fd).Message() })
				what := "Get(" + string(fd.Name()) + " while " + string(sib.Name()) + " is set).Message()"
				if pan {
					c.bad("read-panic", what, pmsg)
					continue
				}
				c.readsAsEmpty(what, sub, dy.Get(fd).Message(), false, 2)
				c.writesPanic(what, sub)
				// and the sibling is still the member that is set
				if w := p.ProtoReflect().WhichOneof(od); w == nil || w.Number() != sib.Number() {
					c.bad("oneof-disturbed-by-get", what, "reading an unset member changed the oneof")
				}
			}
		}
		// (e,f,g) struct-level nils inside a parent of this type
		guardCase(rep, "C09", "nilread", tn, 0, func() { c.structNils(s, d) })
	}
}

// structNils builds parents holding nil list elements / nil map values / oneof wrappers holding nil
// and compares every read-only entry point with protobuf-go's own reflection over an identical struct.
func (c *nrCtx) structNils(s *glue.Subject, d MD) {
	mk := func() (proto.Message, []string) {
		p := newOf(s.Zero)
		rv := reflect.ValueOf(p).Elem()
		var made []string
		for i := 0; i < rv.NumField(); i++ {
			sf := rv.Type().Field(i)
			fv := rv.Field(i)
			if sf.PkgPath != "" {
				continue
			}
			switch fv.Kind() {
			case reflect.Slice:
				if fv.Type().Elem().Kind() == reflect.Ptr && fv.Type().Elem().Elem().Kind() == reflect.Struct {
					sl := reflect.MakeSlice(fv.Type(), 4, 4)
					sl.Index(1).Set(reflect.New(fv.Type().Elem().Elem()))
					// a populated element before a nil one (sizes of earlier elements must not leak into the nil one)
					if pm, ok := reflect.New(fv.Type().Elem().Elem()).Interface().(proto.Message); ok {
						g := NewGen(int64(i)+77, GenOpts{MaxDepth: 1, PFill: 0.9, MaxElems: 2, NoSNaN: true, ValidEnums: true})
						pop := BuildStruct(pm, g.Msg(pm.ProtoReflect().Descriptor(), 0))
						sl.Index(2).Set(reflect.ValueOf(pop))
					}
					fv.Set(sl) // [nil, &T{}, populated, nil]
					made = append(made, "nil-list-element:"+sf.Name)
				}
			case reflect.Map:
				if fv.Type().Elem().Kind() == reflect.Ptr && fv.Type().Elem().Elem().Kind() == reflect.Struct {
					mp := reflect.MakeMap(fv.Type())
					mp.SetMapIndex(reflect.Zero(fv.Type().Key()), reflect.Zero(fv.Type().Elem()))
					fv.Set(mp)
					made = append(made, "nil-map-value:"+sf.Name)
				}
			}
		}
		return p, made
	}
	p1, made := mk()
	p2, _ := mk()
	if len(made) > 0 {
		c.compareWithSlow("struct-with-"+fmt.Sprint(made), p1, p2)
	}
	// oneof wrappers holding a nil message, and typed-nil wrappers
	ods := d.Oneofs()
	for i := 0; i < ods.Len(); i++ {
		od := ods.Get(i)
		if od.IsSynthetic() {
			continue
		}
		for j := 0; j < od.Fields().Len(); j++ {
			fd := od.Fields().Get(j)
			if fd.Kind() != protoreflect.MessageKind {
				continue
			}
			build := func() proto.Message {
				p := BuildStruct(s.Zero, &Msg{D: d, F: []*FVal{{FD: fd, S: &Val{M: &Msg{D: fd.Message()}}}}})
				// set the wrapper's inner pointer to nil
				rv := reflect.ValueOf(p).Elem()
				for k := 0; k < rv.NumField(); k++ {
					if on, ok := rv.Type().Field(k).Tag.Lookup("protobuf_oneof"); ok && on == string(od.Name()) {
						w := rv.Field(k).Elem() // *Wrapper
						w.Elem().Field(0).Set(reflect.Zero(w.Elem().Field(0).Type()))
					}
				}
				return p
			}
			c.compareWithSlow("oneof-wrapper-holding-nil:"+string(fd.Name()), build(), build())
		}
	}
}

// compareWithSlow drives read-only entry points on p1 through the generated code and on the
// identical struct p2 through protobuf-go's table-driven reflection.
func (c *nrCtx) compareWithSlow(what string, p1, p2 proto.Message) {
	c.rep.Eval("C09", []byte(c.tn+"|"+what), true)
	ref := glue.SlowMsg{M: slowView(p2)}
	type res struct {
		out string
		pan bool
		msg string
	}
	run := func(f func(m proto.Message) string, m proto.Message) res {
		var r res
		r.pan, r.msg = safely(func() { r.out = f(m) })
		return r
	}
	ops := []struct {
		name string
		f    func(m proto.Message) string
	}{
		{"Size", func(m proto.Message) string { return fmt.Sprint(proto.MarshalOptions{AllowPartial: true}.Size(m)) }},
		{"Marshal(det)", func(m proto.Message) string {
			b, err := proto.MarshalOptions{Deterministic: true}.Marshal(m)
			return fmt.Sprintf("%x %v", b, err)
		}},
		{"Marshal(det,AllowPartial)", func(m proto.Message) string {
			b, err := proto.MarshalOptions{Deterministic: true, AllowPartial: true}.Marshal(m)
			return fmt.Sprintf("%x %v", b, err)
		}},
		{"Range+Get", func(m proto.Message) string {
			return fmt.Sprintf("%x", SpecEncode(quietF32(Canon(ReflToIR(m.ProtoReflect())))))
		}},
		{"List.Get/Map.Get/Map.Has(each element)", func(m proto.Message) string {
			r := m.ProtoReflect()
			var out []string
			fs := r.Descriptor().Fields()
			for i := 0; i < fs.Len(); i++ {
				fd := fs.Get(i)
				switch {
				case fd.IsList():
					l := r.Get(fd).List()
					for j := 0; j < l.Len(); j++ {
						v := l.Get(j)
						out = append(out, fmt.Sprintf("%s[%d]=%v:%s", fd.Name(), j, v.IsValid(), digestElem(fd, v)))
					}
				case fd.IsMap():
					mp := r.Get(fd).Map()
					var keys []protoreflect.MapKey
					mp.Range(func(k protoreflect.MapKey, _ protoreflect.Value) bool { keys = append(keys, k); return true })
					for _, k := range keys {
						v := mp.Get(k)
						dg := "<invalid>"
						if v.IsValid() {
							dg = digestElem(fd.MapValue(), v)
						}
						out = append(out, fmt.Sprintf("%s[%v]=has:%v valid:%v %s", fd.Name(), k.Interface(), mp.Has(k), v.IsValid(), dg))
					}
				}
			}
			return strings.Join(out, ";")
		}},
		{"Clone", func(m proto.Message) string {
			cl := proto.Clone(m)
			b, _ := proto.MarshalOptions{Deterministic: true, AllowPartial: true}.Marshal(cl)
			return fmt.Sprintf("%x", b)
		}},
		{"Equal(self,clone)", func(m proto.Message) string {
			return fmt.Sprint(proto.Equal(m, m), proto.Equal(m, proto.Clone(m)))
		}},
		{"Merge(from)", func(m proto.Message) string {
			dst := dynamicpb.NewMessage(m.ProtoReflect().Descriptor())
			b0, _ := proto.MarshalOptions{Deterministic: true, AllowPartial: true}.Marshal(m)
			_ = proto.Unmarshal(b0, dst)
			proto.Merge(dst, dst)
			b, _ := proto.MarshalOptions{Deterministic: true}.Marshal(dst)
			return fmt.Sprintf("%x", b)
		}},
		{"protojson", func(m proto.Message) string {
			b, err := protojson.MarshalOptions{AllowPartial: true}.Marshal(m)
			return fmt.Sprintf("%s %v", b, err)
		}},
		{"prototext", func(m proto.Message) string {
			b, err := prototext.MarshalOptions{AllowPartial: true}.Marshal(m)
			return fmt.Sprintf("%s %v", b, err)
		}},
	}
	for _, o := range ops {
		a := run(o.f, p1)
		b := run(o.f, ref)
		c.rep.Count("C09", "struct-nil-ops/"+o.name, 1)
		if b.pan {
			// the reference itself cannot handle this state: nothing to compare with
			c.rep.Inconclusive("C09", "reference-panics/"+o.name)
			continue
		}
		if a.pan {
			c.bad("struct-nil-panic/"+o.name, what, "generated code panics where protobuf-go's reflection over the same struct does not: "+a.msg)
			continue
		}
		if a.out != b.out {
			c.bad("struct-nil-differs/"+o.name, what, fmt.Sprintf("generated %s, reference %s", trunc(a.out), trunc(b.out)))
		}
	}
}
