package main

// Engine "reflectdiff": C08 - the generated reflection API behaves like the
// reference for every operation history.  Three worlds are driven in lock-step
// by the same abstract operation: fast reflection on struct S1, protobuf-go's
// table-driven reflection ("slow") on struct S2 of the same Go type, dynamicpb.
// Every operation is executed through the protoreflect interfaces, so one
// interpreter serves all three worlds; per-world handle tables hold the
// messages / lists / maps obtained so far at identical indices.

import (
	"bytes"
	"fmt"
	"math/rand"
	"sort"
	"strings"

	"github.com/cosmos/cosmos-proto/zzverif/glue"
	"google.golang.org/protobuf/proto"
	"google.golang.org/protobuf/reflect/protoreflect"
	"google.golang.org/protobuf/types/dynamicpb"
	"google.golang.org/protobuf/types/known/anypb"
)

func init() { engines["reflectdiff"] = engineReflectDiff }

type hkind int

const (
	hMsg hkind = iota
	hList
	hMap
)

// abstract handle info (shared by the worlds)
type hinfo struct {
	kind     hkind
	alive    bool
	readonly bool // obtained as an empty read-only view (decided by the references)
	detached bool // NewField/NewElement/NewValue result not (yet) stored
	d        MD   // message descriptor (hMsg)
	fd       FD   // field descriptor (hList/hMap: the list/map field)
	parent   int  // handle it was obtained from (-1 root)
	via      protoreflect.FieldNumber
	elem     string // list index / map key it was obtained through ("" none)
}

type hval struct {
	m  protoreflect.Message
	l  protoreflect.List
	mp protoreflect.Map
}

type world struct {
	name string
	root proto.Message
	h    []hval
}

type opcode int

const (
	opHas opcode = iota
	opGet
	opSetScalar
	opSetNewMessage // Set(fd, NewField(fd) populated with one scalar)
	opClear
	opMutable
	opNewField
	opSetDetached // Set(fd, detached handle value)
	opWhichOneof
	opRange
	opGetUnknown
	opSetUnknown
	opIsValid
	opBadMutable // Mutable on a scalar field: contractual panic
	opForeignFD  // Has with a descriptor of another message: contractual panic
	// list
	opLLen
	opLGet
	opLSet
	opLAppend
	opLAppendMutable
	opLTruncate
	opLNewElementAppend
	opLIsValid
	// map
	opMLen
	opMHas
	opMGet
	opMSet
	opMClear
	opMMutable
	opMRange
	opMNewValueSet
	opMIsValid
	opTransplant // Set(fd, <message h2>.Get(fd)): the value of the same field of another message of the same type
	opSelfAssign // if Has(fd): Set(fd, Get(fd)) - storing a field's own current value changes nothing
)

type op struct {
	code opcode
	h    int // handle index
	fd   FD
	od   protoreflect.OneofDescriptor
	v    Val
	key  Val
	idx  int
	h2   int // second handle (detached value)
	raw  []byte
}

func (o op) String() string {
	names := []string{"Has", "Get", "Set", "SetNewMessage", "Clear", "Mutable", "NewField", "SetDetached", "WhichOneof", "Range", "GetUnknown", "SetUnknown", "IsValid", "Mutable(scalar)", "Has(foreign-fd)",
		"List.Len", "List.Get", "List.Set", "List.Append", "List.AppendMutable", "List.Truncate", "List.NewElement+Append", "List.IsValid",
		"Map.Len", "Map.Has", "Map.Get", "Map.Set", "Map.Clear", "Map.Mutable", "Map.Range", "Map.NewValue+Set", "Map.IsValid", "SetFromOtherMessage", "SetOwnValue"}
	s := fmt.Sprintf("h%d.%s", o.h, names[o.code])
	if o.fd != nil {
		s += "(" + string(o.fd.Name()) + ")"
	}
	if o.od != nil {
		s += "(" + string(o.od.Name()) + ")"
	}
	switch o.code {
	case opSetScalar, opLSet, opLAppend, opMSet:
		s += fmt.Sprintf(" v=%x/%q", o.v.U, o.v.B)
	}
	switch o.code {
	case opLGet, opLSet, opLTruncate:
		s += fmt.Sprintf(" i=%d", o.idx)
	case opMHas, opMGet, opMSet, opMClear, opMMutable, opMNewValueSet:
		s += fmt.Sprintf(" k=%x/%q", o.key.U, o.key.B)
	case opSetDetached, opTransplant:
		s += fmt.Sprintf(" <-h%d", o.h2)
	case opSetUnknown:
		s += fmt.Sprintf(" %x", o.raw)
	}
	return s
}

// digest of a returned value in canonical form
func digestValue(fd FD, v protoreflect.Value) string {
	switch {
	case fd.IsList():
		l := v.List()
		var sb strings.Builder
		fmt.Fprintf(&sb, "list(len=%d)[", l.Len())
		for i := 0; i < l.Len(); i++ {
			sb.WriteString(digestElem(fd, l.Get(i)))
			sb.WriteString(",")
		}
		return sb.String() + "]"
	case fd.IsMap():
		mp := v.Map()
		var es []string
		mp.Range(func(k protoreflect.MapKey, mv protoreflect.Value) bool {
			es = append(es, digestElem(fd.MapKey(), k.Value())+"=>"+digestElem(fd.MapValue(), mv))
			return true
		})
		sort.Strings(es)
		return fmt.Sprintf("map(len=%d)[%s]", mp.Len(), strings.Join(es, ","))
	}
	return digestElem(fd, v)
}

func digestElem(fd FD, v protoreflect.Value) string {
	if fd.Kind() == protoreflect.MessageKind {
		m := v.Message()
		return fmt.Sprintf("msg(%x)", SpecEncode(quietF32(Canon(ReflToIR(m)))))
	}
	x := valFromValue(fd, v)
	return fmt.Sprintf("%x/%x", x.U, x.B)
}

type execResult struct {
	res      string
	panicked bool
	pmsg     string
	valid    int // -1 n/a, 0 invalid, 1 valid (IsValid of a returned composite)
	newH     *hval
}

func localFD(m protoreflect.Message, fd FD) FD {
	return m.Descriptor().Fields().ByNumber(fd.Number())
}

// exec runs one abstract operation in one world.
func exec(w *world, o op) (r execResult) {
	r.valid = -1
	hv := w.h[o.h]
	pan, pmsg := safely(func() {
		switch o.code {
		case opHas:
			r.res = fmt.Sprint(hv.m.Has(localFD(hv.m, o.fd)))
		case opForeignFD:
			r.res = fmt.Sprint(hv.m.Has(o.fd))
		case opGet:
			fd := localFD(hv.m, o.fd)
			v := hv.m.Get(fd)
			r.res = digestValue(fd, v)
			switch {
			case fd.IsList():
				r.newH = &hval{l: v.List()}
				r.valid = b2i(v.List().IsValid())
			case fd.IsMap():
				r.newH = &hval{mp: v.Map()}
				r.valid = b2i(v.Map().IsValid())
			case fd.Kind() == protoreflect.MessageKind:
				r.newH = &hval{m: v.Message()}
				r.valid = b2i(v.Message().IsValid())
			}
		case opSetScalar:
			fd := localFD(hv.m, o.fd)
			hv.m.Set(fd, valueOf(fd, o.v))
		case opSetNewMessage:
			fd := localFD(hv.m, o.fd)
			nv := hv.m.NewField(fd)
			setFirstScalar(nv.Message(), o.v)
			hv.m.Set(fd, nv)
		case opClear:
			hv.m.Clear(localFD(hv.m, o.fd))
		case opMutable, opBadMutable:
			fd := localFD(hv.m, o.fd)
			v := hv.m.Mutable(fd)
			switch {
			case fd.IsList():
				r.newH = &hval{l: v.List()}
				r.valid = b2i(v.List().IsValid())
			case fd.IsMap():
				r.newH = &hval{mp: v.Map()}
				r.valid = b2i(v.Map().IsValid())
			default:
				r.newH = &hval{m: v.Message()}
				r.valid = b2i(v.Message().IsValid())
			}
			r.res = digestValue(fd, v)
		case opNewField:
			fd := localFD(hv.m, o.fd)
			v := hv.m.NewField(fd)
			r.res = digestValue(fd, v)
			switch {
			case fd.IsList():
				r.newH = &hval{l: v.List()}
				r.valid = b2i(v.List().IsValid())
			case fd.IsMap():
				r.newH = &hval{mp: v.Map()}
				r.valid = b2i(v.Map().IsValid())
			case fd.Kind() == protoreflect.MessageKind:
				r.newH = &hval{m: v.Message()}
				r.valid = b2i(v.Message().IsValid())
			}
		case opSetDetached:
			fd := localFD(hv.m, o.fd)
			d := w.h[o.h2]
			switch {
			case fd.IsList():
				hv.m.Set(fd, protoreflect.ValueOfList(d.l))
			case fd.IsMap():
				hv.m.Set(fd, protoreflect.ValueOfMap(d.mp))
			default:
				hv.m.Set(fd, protoreflect.ValueOfMessage(d.m))
			}
		case opTransplant:
			fd := localFD(hv.m, o.fd)
			src := w.h[o.h2].m
			hv.m.Set(fd, src.Get(localFD(src, o.fd)))
		case opSelfAssign:
			fd := localFD(hv.m, o.fd)
			if hv.m.Has(fd) {
				hv.m.Set(fd, hv.m.Get(fd))
				r.res = "stored"
			}
		case opWhichOneof:
			od := hv.m.Descriptor().Oneofs().ByName(o.od.Name())
			f := hv.m.WhichOneof(od)
			if f == nil {
				r.res = "nil"
			} else {
				r.res = string(f.FullName())
			}
		case opRange:
			seen := map[protoreflect.FieldNumber]int{}
			var es []string
			hv.m.Range(func(fd FD, v protoreflect.Value) bool {
				seen[fd.Number()]++
				es = append(es, fmt.Sprintf("%d:%s", fd.Number(), digestValue(fd, v)))
				return true
			})
			for n, c := range seen {
				if c > 1 {
					es = append(es, fmt.Sprintf("DUPLICATE-VISIT(%d x%d)", n, c))
				}
			}
			sort.Strings(es)
			r.res = strings.Join(es, ";")
			// early stop: the callback must not be invoked again after returning false
			calls := 0
			hv.m.Range(func(fd FD, v protoreflect.Value) bool { calls++; return false })
			if calls > 1 {
				r.res += fmt.Sprintf(";RANGE-CONTINUED-AFTER-FALSE(%d calls)", calls)
			}
		case opGetUnknown:
			r.res = fmt.Sprintf("%x", []byte(hv.m.GetUnknown()))
		case opSetUnknown:
			hv.m.SetUnknown(append(protoreflect.RawFields(nil), o.raw...))
		case opIsValid:
			r.res = fmt.Sprint(hv.m.IsValid())
		// ---- list
		case opLLen:
			r.res = fmt.Sprint(hv.l.Len())
		case opLIsValid:
			r.res = fmt.Sprint(hv.l.IsValid())
		case opLGet:
			v := hv.l.Get(o.idx)
			r.res = digestElem(o.fd, v)
			if o.fd.Kind() == protoreflect.MessageKind {
				r.newH = &hval{m: v.Message()}
				r.valid = b2i(v.Message().IsValid())
			}
		case opLSet:
			hv.l.Set(o.idx, valueOf(o.fd, o.v))
		case opLAppend:
			hv.l.Append(valueOf(o.fd, o.v))
		case opLAppendMutable:
			v := hv.l.AppendMutable()
			r.newH = &hval{m: v.Message()}
			r.valid = b2i(v.Message().IsValid())
		case opLTruncate:
			hv.l.Truncate(o.idx)
		case opLNewElementAppend:
			v := hv.l.NewElement()
			if o.fd.Kind() == protoreflect.MessageKind {
				setFirstScalar(v.Message(), o.v)
			}
			r.res = digestElem(o.fd, v)
			hv.l.Append(v)
		// ---- map
		case opMLen:
			r.res = fmt.Sprint(hv.mp.Len())
		case opMIsValid:
			r.res = fmt.Sprint(hv.mp.IsValid())
		case opMHas:
			r.res = fmt.Sprint(hv.mp.Has(valueOf(o.fd.MapKey(), o.key).MapKey()))
		case opMGet:
			v := hv.mp.Get(valueOf(o.fd.MapKey(), o.key).MapKey())
			if !v.IsValid() {
				r.res = "<invalid>"
			} else {
				r.res = digestElem(o.fd.MapValue(), v)
				if o.fd.MapValue().Kind() == protoreflect.MessageKind {
					r.newH = &hval{m: v.Message()}
					r.valid = b2i(v.Message().IsValid())
				}
			}
		case opMSet:
			hv.mp.Set(valueOf(o.fd.MapKey(), o.key).MapKey(), valueOf(o.fd.MapValue(), o.v))
		case opMClear:
			hv.mp.Clear(valueOf(o.fd.MapKey(), o.key).MapKey())
		case opMMutable:
			v := hv.mp.Mutable(valueOf(o.fd.MapKey(), o.key).MapKey())
			r.newH = &hval{m: v.Message()}
			r.valid = b2i(v.Message().IsValid())
		case opMRange:
			var es []string
			hv.mp.Range(func(k protoreflect.MapKey, v protoreflect.Value) bool {
				es = append(es, digestElem(o.fd.MapKey(), k.Value())+"=>"+digestElem(o.fd.MapValue(), v))
				return true
			})
			sort.Strings(es)
			r.res = strings.Join(es, ",")
			calls := 0
			hv.mp.Range(func(k protoreflect.MapKey, v protoreflect.Value) bool { calls++; return false })
			if calls > 1 {
				r.res += fmt.Sprintf(";RANGE-CONTINUED-AFTER-FALSE(%d)", calls)
			}
		case opMNewValueSet:
			v := hv.mp.NewValue()
			if o.fd.MapValue().Kind() == protoreflect.MessageKind {
				setFirstScalar(v.Message(), o.v)
			}
			r.res = digestElem(o.fd.MapValue(), v)
			hv.mp.Set(valueOf(o.fd.MapKey(), o.key).MapKey(), v)
		}
	})
	r.panicked, r.pmsg = pan, pmsg
	return
}

func b2i(b bool) int {
	if b {
		return 1
	}
	return 0
}

// setFirstScalar stores a value into the first singular non-oneof scalar field of m (if any).
func setFirstScalar(m protoreflect.Message, v Val) {
	fs := m.Descriptor().Fields()
	for i := 0; i < fs.Len(); i++ {
		fd := fs.Get(i)
		if fd.IsList() || fd.IsMap() || fd.Kind() == protoreflect.MessageKind || inOneof(fd) {
			continue
		}
		x := v
		switch fd.Kind() {
		case protoreflect.StringKind, protoreflect.BytesKind:
			x = Val{B: []byte("s")}
		case protoreflect.BoolKind:
			x = Val{U: 1}
		case protoreflect.EnumKind:
			x = Val{U: uint64(int64(fd.Enum().Values().Get(fd.Enum().Values().Len() - 1).Number()))}
		case protoreflect.FloatKind:
			x = Val{U: 0x3f800000}
		case protoreflect.DoubleKind:
			x = Val{U: 0x3ff0000000000000}
		default:
			x = normScalar(fd.Kind(), Val{U: 7})
		}
		m.Set(fd, valueOf(fd, x))
		return
	}
}

// ---------------------------------------------------------------------------

type rdCase struct {
	rep    *Report
	s      *glue.Subject
	d      MD
	tn     string
	worlds [3]*world // fast, slow, dyn
	info   []hinfo
	hist   []string
	r      *rand.Rand
	g      *Gen
	rc     replayCase
	dead   bool // case finished (violation or ambiguity)
}

func newRDCase(rep *Report, s *glue.Subject, seed int64, salt string, idx int) *rdCase {
	d := s.Zero.ProtoReflect().Descriptor()
	c := &rdCase{rep: rep, s: s, d: d, tn: string(s.FullName), r: rand.New(rand.NewSource(seed))}
	o := defaultGen()
	o.NoSNaN = true
	o.LongValues = false
	c.g = NewGen(seed^0x9e3779b9, o)
	s1, s2 := newOf(s.Zero), newOf(s.Zero)
	dy := dynamicpb.NewMessage(d)
	c.worlds = [3]*world{
		{name: "fast", root: s1, h: []hval{{m: s1.ProtoReflect()}}},
		{name: "slow", root: s2, h: []hval{{m: slowView(s2)}}},
		{name: "dynamicpb", root: dy, h: []hval{{m: dy.ProtoReflect()}}},
	}
	c.info = []hinfo{{kind: hMsg, alive: true, d: d, parent: -1}}
	c.rc = replayCase{Engine: "reflectdiff", Type: c.tn, Seed: *flagSeed, Index: idx, Salt: salt}
	return c
}

func (c *rdCase) violate(key, detail string) {
	h := c.hist
	if len(h) > 40 {
		h = h[len(h)-40:]
	}
	c.rc.Note = strings.Join(h, " ; ")
	c.rep.Violate("C08", key, c.tn, detail+"\nhistory: "+c.rc.Note, c.rc)
	c.dead = true
}

func (c *rdCase) killThrough(parent int, via protoreflect.FieldNumber, elem string) {
	// kills every handle whose ancestry passes through (parent, via[, elem])
	var dead func(i int) bool
	dead = func(i int) bool {
		for i > 0 {
			hi := c.info[i]
			if hi.parent == parent && (via == 0 || hi.via == via) && (elem == "" || hi.elem == elem || hi.elem == "") {
				return true
			}
			i = hi.parent
			if i < 0 {
				break
			}
		}
		return false
	}
	for i := 1; i < len(c.info); i++ {
		if c.info[i].alive && dead(i) {
			c.info[i].alive = false
		}
	}
}

// step executes o in all worlds, compares, updates handle tables.
func (c *rdCase) step(o op, newInfo *hinfo) {
	c.hist = append(c.hist, o.String())
	var rs [3]execResult
	for i, w := range c.worlds {
		rs[i] = exec(w, o)
	}
	fast, slow, dyn := rs[0], rs[1], rs[2]
	c.rep.Count("C08", "op/"+opName(o), 1)
	// register the new handle at the same index in every world (also when a world panicked: nil entry)
	if newInfo != nil {
		for i, w := range c.worlds {
			if rs[i].newH != nil {
				w.h = append(w.h, *rs[i].newH)
			} else {
				w.h = append(w.h, hval{})
			}
		}
		ni := *newInfo
		ni.alive = !(fast.panicked || slow.panicked || dyn.panicked) && fast.newH != nil && slow.newH != nil && dyn.newH != nil
		if slow.valid == 0 && dyn.valid == 0 {
			ni.readonly = true
		}
		c.info = append(c.info, ni)
	}
	// ---- panics
	if slow.panicked != dyn.panicked && o.h != 0 && c.info[o.h].kind == hMsg {
		// below the top level the "slow" world's message handles are the nested type's own generated
		// reflection (section 2.4: contaminated), so dynamicpb alone arbitrates panics there
		slow.panicked = dyn.panicked
		c.rep.Count("C08", "panic-arbitrated-by-dynamicpb-alone", 1)
	}
	if slow.panicked != dyn.panicked {
		if len(c.rep.Notes) < 6 {
			c.rep.Notes = append(c.rep.Notes, fmt.Sprintf("references disagree on panic (slow=%v dyn=%v) at %s of %s; history %s; %s%s", slow.panicked, dyn.panicked, o, c.tn, strings.Join(c.hist, " ; "), firstLine(slow.pmsg), firstLine(dyn.pmsg)))
		}
		c.rep.Inconclusive("C08", "references-disagree-on-panic/"+o.String()[strings.Index(o.String(), ".")+1:][:3])
		c.dead = true
		return
	}
	if fast.panicked != dyn.panicked {
		if fast.panicked {
			c.violate("reflectdiff/panic/"+opName(o), fmt.Sprintf("%s panics on the generated message but not on the references: %s", o, fast.pmsg))
		} else {
			c.violate("reflectdiff/missing-panic/"+opName(o), fmt.Sprintf("%s must panic (both references do: %s) but is silently accepted", o, firstLine(dyn.pmsg)))
		}
		return
	}
	if dyn.panicked {
		c.rep.Count("C08", "contractual-panics-agreed", 1)
		// state must be unchanged by a panicking operation in all worlds: checked by the state comparison below
	} else {
		// ---- return values
		if slow.res != dyn.res {
			c.rep.Inconclusive("C08", "references-disagree-on-result")
			c.dead = true
			return
		}
		if fast.res != dyn.res {
			c.violate("reflectdiff/result/"+opName(o), fmt.Sprintf("%s returned %s; references returned %s", o, trunc(fast.res), trunc(dyn.res)))
			return
		}
		if slow.valid == dyn.valid && fast.valid != dyn.valid {
			c.violate("reflectdiff/validity/"+opName(o), fmt.Sprintf("%s: IsValid of the returned value is %d, references %d", o, fast.valid, dyn.valid))
			return
		}
	}
	// ---- states
	var st [3][]byte
	for i, w := range c.worlds {
		var ir *Msg
		pan, pmsg := safely(func() {
			if i == 2 {
				ir = ReflToIR(w.root.ProtoReflect())
			} else {
				ir = StructToIR(w.root)
			}
		})
		if pan {
			c.violate("reflectdiff/state-unreadable", "reading the state of world "+w.name+" panics: "+pmsg)
			return
		}
		st[i] = SpecEncode(quietF32(Canon(ir)))
	}
	if !bytes.Equal(st[1], st[2]) {
		c.rep.Inconclusive("C08", "references-disagree-on-state")
		c.dead = true
		return
	}
	if !bytes.Equal(st[0], st[2]) {
		c.violate("reflectdiff/state/"+opName(o), fmt.Sprintf("after %s the Go struct of the generated message differs from the references: %s", o, firstDiff(st[0], st[2])))
		return
	}
	// the generated message's own reflection view must show the same state (Range visits exactly the populated fields)
	var viaRange []byte
	pan, pmsg := safely(func() { viaRange = SpecEncode(quietF32(Canon(ReflToIR(c.worlds[0].root.ProtoReflect())))) })
	if pan {
		c.violate("reflectdiff/range-panics", pmsg)
		return
	}
	if !bytes.Equal(viaRange, st[0]) {
		c.violate("reflectdiff/range-vs-struct", fmt.Sprintf("after %s Range/Get of the generated message shows another state than its Go struct: %s", o, firstDiff(viaRange, st[0])))
	}
}

func minInt(a, b int) int {
	if a < b {
		return a
	}
	return b
}

func opName(o op) string {
	s := o.String()
	s = s[strings.Index(s, ".")+1:]
	if i := strings.IndexAny(s, "( "); i > 0 {
		s = s[:i]
	}
	return s
}

func trunc(s string) string {
	if len(s) > 300 {
		return s[:300] + "..."
	}
	return s
}

func firstLine(s string) string {
	if i := strings.Index(s, "\n"); i > 0 {
		return s[:i]
	}
	return s
}

// ---------------------------------------------------------------------------
// random histories

func (c *rdCase) aliveHandles(k hkind) []int {
	var o []int
	for i, h := range c.info {
		if h.alive && h.kind == k {
			o = append(o, i)
		}
	}
	return o
}

func (c *rdCase) pickField(d MD, pred func(FD) bool) FD {
	fs := d.Fields()
	var cs []FD
	for i := 0; i < fs.Len(); i++ {
		if pred(fs.Get(i)) {
			cs = append(cs, fs.Get(i))
		}
	}
	if len(cs) == 0 {
		return nil
	}
	return cs[c.r.Intn(len(cs))]
}

func isComposite(fd FD) bool {
	return fd.IsList() || fd.IsMap() || fd.Kind() == protoreflect.MessageKind
}

func keyStr(k Val) string { return fmt.Sprintf("%x/%x", k.U, k.B) }

// existing keys of a map handle according to the dynamicpb world
func (c *rdCase) dynKeys(h int, fd FD) []Val {
	var ks []Val
	mp := c.worlds[2].h[h].mp
	if mp == nil {
		return nil
	}
	safely(func() {
		mp.Range(func(k protoreflect.MapKey, v protoreflect.Value) bool {
			ks = append(ks, valFromValue(fd.MapKey(), k.Value()))
			return true
		})
	})
	sort.Slice(ks, func(i, j int) bool { return keyStr(ks[i]) < keyStr(ks[j]) })
	return ks
}

func (c *rdCase) dynLen(h int) int {
	n := 0
	safely(func() { n = c.worlds[2].h[h].l.Len() })
	return n
}

// dynFieldLen: number of elements / entries of a list or map field of message handle h (dynamicpb world).
func (c *rdCase) dynFieldLen(h int, fd FD) int {
	n := 0
	safely(func() {
		m := c.worlds[2].h[h].m
		v := m.Get(localFD(m, fd))
		if fd.IsMap() {
			n = v.Map().Len()
		} else {
			n = v.List().Len()
		}
	})
	return n
}

// related reports whether one handle is an ancestor of the other (storing a message's own container inside
// itself or its descendants would build cycles).
func (c *rdCase) related(a, b int) bool {
	up := func(x, y int) bool {
		for x > 0 {
			if x == y {
				return true
			}
			x = c.info[x].parent
		}
		return x == y
	}
	return up(a, b) || up(b, a)
}

func (c *rdCase) randomStep() {
	r := c.r
	kind := hMsg
	switch x := r.Intn(10); {
	case x < 5:
		kind = hMsg
	case x < 8:
		kind = hList
	default:
		kind = hMap
	}
	hs := c.aliveHandles(kind)
	if len(hs) == 0 {
		kind = hMsg
		hs = c.aliveHandles(hMsg)
	}
	h := hs[r.Intn(len(hs))]
	// prefer recently created handles sometimes
	if r.Intn(3) == 0 {
		h = hs[len(hs)-1]
	}
	hi := c.info[h]
	switch kind {
	case hMsg:
		c.msgStep(h, hi)
	case hList:
		c.listStep(h, hi)
	case hMap:
		c.mapStep(h, hi)
	}
}

func (c *rdCase) msgStep(h int, hi hinfo) {
	r := c.r
	d := hi.d
	if d.Fields().Len() == 0 {
		c.step(op{code: []opcode{opRange, opGetUnknown, opIsValid}[r.Intn(3)], h: h}, nil)
		return
	}
	anyF := func(FD) bool { return true }
	write := !hi.readonly
	x := r.Intn(20)
	if hi.readonly && x >= 8 && r.Intn(4) != 0 {
		x = r.Intn(8) // mostly reads on read-only messages, sometimes a write (must panic)
	}
	switch {
	case x < 2:
		c.step(op{code: opHas, h: h, fd: c.pickField(d, anyF)}, nil)
	case x < 5:
		fd := c.pickField(d, anyF)
		var ni *hinfo
		if isComposite(fd) {
			ni = &hinfo{parent: h, via: fd.Number(), fd: fd}
			switch {
			case fd.IsList():
				ni.kind = hList
			case fd.IsMap():
				ni.kind = hMap
			default:
				ni.kind, ni.d = hMsg, fd.Message()
			}
		}
		c.step(op{code: opGet, h: h, fd: fd}, ni)
	case x < 6:
		if d.Oneofs().Len() > 0 {
			c.step(op{code: opWhichOneof, h: h, od: d.Oneofs().Get(r.Intn(d.Oneofs().Len()))}, nil)
		} else {
			c.step(op{code: opRange, h: h}, nil)
		}
	case x < 7:
		c.step(op{code: opRange, h: h}, nil)
	case x < 8:
		c.step(op{code: []opcode{opGetUnknown, opIsValid}[r.Intn(2)], h: h}, nil)
	case x < 11:
		fd := c.pickField(d, func(f FD) bool { return !isComposite(f) })
		if fd == nil {
			return
		}
		v := c.g.Scalar(fd)
		if r.Intn(4) == 0 {
			v = Val{} // zero values matter (presence)
		}
		if fd.Kind() == protoreflect.DoubleKind && r.Intn(6) == 0 {
			v = Val{U: 0x8000000000000000}
		}
		if fd.Kind() == protoreflect.FloatKind && r.Intn(6) == 0 {
			v = Val{U: 0x80000000}
		}
		c.step(op{code: opSetScalar, h: h, fd: fd, v: v}, nil)
		if write {
			c.afterFieldWrite(h, fd)
		}
	case x < 12:
		fd := c.pickField(d, func(f FD) bool { return f.Kind() == protoreflect.MessageKind && !f.IsList() && !f.IsMap() })
		if fd == nil {
			return
		}
		c.step(op{code: opSetNewMessage, h: h, fd: fd, v: Val{U: 7}}, nil)
		if write {
			c.afterFieldWrite(h, fd)
		}
	case x < 14:
		fd := c.pickField(d, anyF)
		if hi.readonly {
			// Clear on a read-only empty message: dynamicpb treats it as a no-op, protobuf-go's generated
			// messages panic; the contract leaves it open, so it is not part of the workload
			c.step(op{code: opHas, h: h, fd: fd}, nil)
			return
		}
		c.step(op{code: opClear, h: h, fd: fd}, nil)
		if write {
			// a list view obtained earlier stays a valid value when the field is cleared (what it then holds differs
			// between the references, and for map views they differ on validity too: only list validity is compared
			// before the handle is dropped)
			for i := range c.info {
				x := c.info[i]
				if x.alive && !x.readonly && !x.detached && x.parent == h && x.via == fd.Number() && x.elem == "" && x.kind == hList {
					c.step(op{code: opLIsValid, h: i, fd: fd}, nil)
				}
			}
			c.afterFieldWrite(h, fd)
		}
	case x < 17:
		fd := c.pickField(d, isComposite)
		if fd == nil {
			return
		}
		ni := &hinfo{parent: h, via: fd.Number(), fd: fd}
		switch {
		case fd.IsList():
			ni.kind = hList
		case fd.IsMap():
			ni.kind = hMap
		default:
			ni.kind, ni.d = hMsg, fd.Message()
		}
		if write && inOneof(fd) {
			c.killSiblings(h, fd)
		}
		c.step(op{code: opMutable, h: h, fd: fd}, ni)
	case x < 18:
		fd := c.pickField(d, isComposite)
		if fd == nil {
			return
		}
		ni := &hinfo{parent: h, via: fd.Number(), fd: fd, detached: true}
		switch {
		case fd.IsList():
			ni.kind = hList
		case fd.IsMap():
			ni.kind = hMap
		default:
			ni.kind, ni.d = hMsg, fd.Message()
		}
		c.step(op{code: opNewField, h: h, fd: fd}, ni)
	case x < 19:
		// store a detached value (created by NewField on this handle) or, rarely, a read-only view (must panic)
		var cands []int
		for i, x := range c.info {
			if x.alive && x.parent == h && (x.detached || (x.readonly && x.kind != hMsg && r.Intn(3) == 0)) {
				cands = append(cands, i)
			}
		}
		if len(cands) == 0 {
			c.step(op{code: opSetUnknown, h: h, raw: c.g.UnknownRecord(d, 0)}, nil)
			return
		}
		h2 := cands[r.Intn(len(cands))]
		fd := d.Fields().ByNumber(c.info[h2].via)
		c.step(op{code: opSetDetached, h: h, fd: fd, h2: h2}, nil)
		if write && !c.info[h2].readonly {
			c.afterFieldWrite(h, fd)
		}
		c.info[h2].alive = false // aliasing after Set is unspecified: the value is not used again
		c.killThrough(h2, 0, "")
	default:
		switch r.Intn(6) {
		case 0:
			fd := c.pickField(d, func(f FD) bool { return !isComposite(f) })
			if fd != nil {
				c.step(op{code: opBadMutable, h: h, fd: fd}, &hinfo{kind: hMsg, parent: h, via: fd.Number(), d: d})
			}
		case 1:
			// a descriptor of another message type: contractual panic
			foreign := (&anypb.Any{}).ProtoReflect().Descriptor().Fields().Get(0)
			if d.FullName() != "google.protobuf.Any" {
				c.step(op{code: opForeignFD, h: h, fd: foreign}, nil)
			}
		case 2:
			c.step(op{code: opSetUnknown, h: h, raw: nil}, nil)
		case 3:
			// read-modify-write without the modify: the field keeps its value (lists, maps, messages: the very same container)
			if fd := c.pickField(d, isComposite); fd != nil {
				c.step(op{code: opSelfAssign, h: h, fd: fd}, nil)
				c.killThrough(h, fd.Number(), "") // aliasing after Set is unspecified: views taken before are not used again
			} else {
				c.step(op{code: opSetUnknown, h: h, raw: nil}, nil)
			}
		default:
			c.step(op{code: opSetUnknown, h: h, raw: c.g.UnknownRecord(d, 0)}, nil)
		}
	}
}

func (c *rdCase) killSiblings(h int, fd FD) {
	ofs := fd.ContainingOneof().Fields()
	for i := 0; i < ofs.Len(); i++ {
		if ofs.Get(i).Number() != fd.Number() {
			c.killThrough(h, ofs.Get(i).Number(), "")
		}
	}
}

// afterFieldWrite: handles obtained through (h, fd) no longer denote the field's value.
func (c *rdCase) afterFieldWrite(h int, fd FD) {
	c.killThrough(h, fd.Number(), "")
	if inOneof(fd) {
		c.killSiblings(h, fd)
	}
}

func (c *rdCase) listStep(h int, hi hinfo) {
	r := c.r
	fd := hi.fd
	n := c.dynLen(h)
	isMsg := fd.Kind() == protoreflect.MessageKind
	x := r.Intn(12)
	if hi.readonly && x >= 4 && r.Intn(4) != 0 {
		x = r.Intn(4)
	}
	elemVal := func() Val {
		if isMsg {
			return Val{U: 7}
		}
		if r.Intn(5) == 0 {
			return Val{}
		}
		return c.g.Scalar(fd)
	}
	switch {
	case x < 1:
		c.step(op{code: opLLen, h: h, fd: fd}, nil)
	case x < 2:
		c.step(op{code: opLIsValid, h: h, fd: fd}, nil)
	case x < 4:
		i := 0
		if n > 0 {
			i = r.Intn(n)
		} else if r.Intn(3) != 0 {
			c.step(op{code: opLLen, h: h, fd: fd}, nil)
			return
		}
		var ni *hinfo
		if isMsg {
			ni = &hinfo{kind: hMsg, parent: h, via: 0, d: fd.Message(), elem: fmt.Sprint(i)}
		}
		c.step(op{code: opLGet, h: h, fd: fd, idx: i}, ni)
	case x < 6:
		if isMsg {
			c.step(op{code: opLNewElementAppend, h: h, fd: fd, v: elemVal()}, nil)
		} else {
			c.step(op{code: opLAppend, h: h, fd: fd, v: elemVal()}, nil)
		}
	case x < 8:
		if isMsg {
			c.step(op{code: opLAppendMutable, h: h, fd: fd}, &hinfo{kind: hMsg, parent: h, d: fd.Message(), elem: fmt.Sprint(n)})
		} else {
			c.step(op{code: opLAppend, h: h, fd: fd, v: elemVal()}, nil)
		}
	case x < 10:
		if n == 0 || isMsg {
			c.step(op{code: opLLen, h: h, fd: fd}, nil)
			return
		}
		i := r.Intn(n)
		c.step(op{code: opLSet, h: h, fd: fd, idx: i, v: elemVal()}, nil)
	default:
		t := 0
		if n > 0 {
			t = r.Intn(n + 1)
		}
		c.step(op{code: opLTruncate, h: h, fd: fd, idx: t}, nil)
		if !hi.readonly {
			for i := 1; i < len(c.info); i++ {
				if c.info[i].alive && c.info[i].parent == h && c.info[i].elem != "" {
					var k int
					fmt.Sscan(c.info[i].elem, &k)
					if k >= t {
						// the removed element is a standalone message now: still readable through the retained handle
						c.info[i].parent, c.info[i].elem, c.info[i].detached = -2, "", true
					}
				}
			}
		}
	}
}

func (c *rdCase) mapStep(h int, hi hinfo) {
	r := c.r
	fd := hi.fd
	keys := c.dynKeys(h, fd)
	isMsg := fd.MapValue().Kind() == protoreflect.MessageKind
	pickKey := func(existing bool) Val {
		if existing && len(keys) > 0 {
			return keys[r.Intn(len(keys))]
		}
		k := c.g.Scalar(fd.MapKey())
		if r.Intn(4) == 0 {
			k = Val{}
		}
		return k
	}
	x := r.Intn(14)
	if hi.readonly && x >= 5 && r.Intn(4) != 0 {
		x = r.Intn(5)
	}
	switch {
	case x < 1:
		c.step(op{code: opMLen, h: h, fd: fd}, nil)
	case x < 2:
		c.step(op{code: opMIsValid, h: h, fd: fd}, nil)
	case x < 3:
		c.step(op{code: opMHas, h: h, fd: fd, key: pickKey(r.Intn(2) == 0)}, nil)
	case x < 4:
		c.step(op{code: opMRange, h: h, fd: fd}, nil)
	case x < 6:
		k := pickKey(r.Intn(4) != 0)
		var ni *hinfo
		if isMsg {
			ni = &hinfo{kind: hMsg, parent: h, d: fd.MapValue().Message(), elem: keyStr(k)}
		}
		c.step(op{code: opMGet, h: h, fd: fd, key: k}, ni)
	case x < 9:
		k := pickKey(r.Intn(3) == 0)
		if isMsg {
			c.step(op{code: opMNewValueSet, h: h, fd: fd, key: k, v: Val{U: 7}}, nil)
		} else {
			v := c.g.Scalar(fd.MapValue())
			if r.Intn(4) == 0 {
				v = Val{}
			}
			c.step(op{code: opMSet, h: h, fd: fd, key: k, v: v}, nil)
		}
		if !hi.readonly {
			c.killElem(h, keyStr(k))
		}
	case x < 11:
		k := pickKey(r.Intn(4) != 0)
		c.step(op{code: opMClear, h: h, fd: fd, key: k}, nil)
		if !hi.readonly {
			c.killElem(h, keyStr(k))
		}
	default:
		if !isMsg {
			c.step(op{code: opMLen, h: h, fd: fd}, nil)
			return
		}
		k := pickKey(r.Intn(2) == 0)
		c.step(op{code: opMMutable, h: h, fd: fd, key: k}, &hinfo{kind: hMsg, parent: h, d: fd.MapValue().Message(), elem: keyStr(k)})
	}
}

func (c *rdCase) killElem(h int, elem string) {
	for i := 1; i < len(c.info); i++ {
		if c.info[i].alive && c.info[i].parent == h && c.info[i].elem == elem {
			c.info[i].alive = false
			c.killThrough(i, 0, "")
		}
	}
}

func engineReflectDiff(rep *Report) {
	subs := allSubjects()
	n := perType(60, 3000)
	only := onlyIndex()
	for ti, s := range subs {
		tn := string(s.FullName)
		rep.Types = append(rep.Types, tn)
		for i := 0; i < n; i++ {
			if only < 0 && !mineCase(ti, i) {
				continue
			}
			if only >= 0 && i != only {
				continue
			}
			seed := caseSeed(*flagSeed, tn, i, "reflectdiff")
			var c *rdCase
			guardCase(rep, "C08", "reflectdiff", tn, i, func() {
				c = newRDCase(rep, s, seed, "random", i)
				steps := 30 + c.r.Intn(31)
				// some histories start from a populated message (built the same way in all three worlds)
				if i%3 == 1 {
					v := c.g.Msg(c.d, 0)
					b := SpecEncode(quietF32(v))
					for wi, w := range c.worlds {
						if wi == 2 {
							_ = proto.Unmarshal(b, w.root)
						} else {
							// through the table-driven reflection, not through the subject's decoder
							Fill(slowView, w.root, quietF32(v))
						}
					}
					c.hist = append(c.hist, fmt.Sprintf("<start from value %x>", b))
				}
				for k := 0; k < steps && !c.dead; k++ {
					c.randomStep()
				}
			})
			if c == nil {
				continue
			}
			rep.Eval("C08", []byte(tn+"|"+strings.Join(c.hist, ";")), len(c.hist) > 0)
			if i == 0 && ti < 2 {
				h := c.hist
				if len(h) > 25 {
					h = h[:25]
				}
				rep.Sample("C08", map[string]interface{}{"type": tn, "history": h})
			}
		}
	}
}
