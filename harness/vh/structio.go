package main

// Reading generated Go structs with package reflect only (struct tags give the
// field numbers).  This observer shares no code with the generated reflection,
// with protobuf-go's impl package or with dynamicpb, so it is what decides the
// "plain Go struct state" parts of the properties and fingerprints structs for
// the aliasing / read-only monitors.

import (
	"fmt"
	"hash/fnv"
	"math"
	"reflect"
	"sort"
	"strconv"
	"strings"
	"sync"

	"github.com/cosmos/cosmos-proto/zzverif/glue"
	"google.golang.org/protobuf/proto"
	"google.golang.org/protobuf/reflect/protoreflect"
)

func tagNumber(tag string) (protoreflect.FieldNumber, bool) {
	// protobuf:"varint,1,opt,name=..."
	parts := strings.Split(tag, ",")
	if len(parts) < 2 {
		return 0, false
	}
	n, err := strconv.Atoi(parts[1])
	if err != nil {
		return 0, false
	}
	return protoreflect.FieldNumber(n), true
}

func scalarFromRV(k Kind, rv reflect.Value) Val {
	switch rv.Kind() {
	case reflect.Bool:
		if rv.Bool() {
			return Val{U: 1}
		}
		return Val{}
	case reflect.Int32, reflect.Int64:
		return normScalar(k, Val{U: uint64(rv.Int())})
	case reflect.Uint32, reflect.Uint64:
		return normScalar(k, Val{U: rv.Uint()})
	case reflect.Float32:
		return Val{U: uint64(math.Float32bits(float32FromRV(rv)))}
	case reflect.Float64:
		return Val{U: math.Float64bits(rv.Float())}
	case reflect.String:
		return Val{B: []byte(rv.String())}
	case reflect.Slice:
		return Val{B: append([]byte(nil), rv.Bytes()...)}
	}
	panic(fmt.Sprintf("scalarFromRV: %v", rv.Kind()))
}

// float32FromRV reads a float32 without going through float64 (which would quiet sNaNs).
func float32FromRV(rv reflect.Value) float32 {
	if rv.CanAddr() {
		return *(*float32)(rv.Addr().UnsafePointer())
	}
	// copy into addressable storage
	c := reflect.New(rv.Type()).Elem()
	c.Set(rv)
	return *(*float32)(c.Addr().UnsafePointer())
}

func valFromRV(fd FD, rv reflect.Value) Val {
	if fd.Kind() == protoreflect.MessageKind {
		return Val{M: structToIRrv(fd.Message(), rv)}
	}
	return scalarFromRV(fd.Kind(), rv)
}

// StructToIR reads the exported Go fields of a generated message.
func StructToIR(m proto.Message) *Msg {
	return structToIRrv(m.ProtoReflect().Descriptor(), reflect.ValueOf(m))
}

func structToIRrv(d MD, pv reflect.Value) *Msg {
	out := &Msg{D: d}
	if pv.Kind() != reflect.Ptr {
		panic("structToIR: not a pointer: " + pv.Type().String())
	}
	if pv.IsNil() {
		out.Nil = true
		return out
	}
	sv := pv.Elem()
	st := sv.Type()
	fields := d.Fields()
	for i := 0; i < st.NumField(); i++ {
		sf := st.Field(i)
		fv := sv.Field(i)
		if sf.Name == "unknownFields" {
			if fv.Len() > 0 {
				out.Unk = append([]byte(nil), fv.Bytes()...)
			}
			continue
		}
		if oname, ok := sf.Tag.Lookup("protobuf_oneof"); ok {
			_ = oname
			if fv.IsNil() {
				continue
			}
			w := fv.Elem() // *Wrapper
			if w.Kind() != reflect.Ptr {
				panic("oneof wrapper not pointer")
			}
			wt := w.Type().Elem()
			num, ok := tagNumber(wt.Field(0).Tag.Get("protobuf"))
			if !ok {
				panic("oneof wrapper without tag: " + wt.String())
			}
			fd := fields.ByNumber(num)
			if fd == nil {
				panic("oneof wrapper number unknown")
			}
			if w.IsNil() {
				// typed nil wrapper: reads as unset in protobuf-go
				continue
			}
			inner := w.Elem().Field(0)
			v := valFromRV(fd, inner)
			out.F = append(out.F, &FVal{FD: fd, S: &v})
			continue
		}
		tag, ok := sf.Tag.Lookup("protobuf")
		if !ok {
			continue
		}
		num, ok := tagNumber(tag)
		if !ok {
			continue
		}
		fd := fields.ByNumber(num)
		if fd == nil {
			panic(fmt.Sprintf("struct field %s.%s has number %d not in descriptor", st.Name(), sf.Name, num))
		}
		switch {
		case fd.IsMap():
			if fv.IsNil() {
				continue
			}
			f := &FVal{FD: fd, EmptyNonNil: fv.Len() == 0}
			it := fv.MapRange()
			for it.Next() {
				f.M = append(f.M, KV{K: valFromRV(fd.MapKey(), it.Key()), V: valFromRV(fd.MapValue(), it.Value())})
			}
			if len(f.M) > 0 || f.EmptyNonNil {
				out.F = append(out.F, f)
			}
		case fd.IsList():
			if fv.IsNil() {
				continue
			}
			f := &FVal{FD: fd, EmptyNonNil: fv.Len() == 0}
			for j := 0; j < fv.Len(); j++ {
				f.L = append(f.L, valFromRV(fd, fv.Index(j)))
			}
			out.F = append(out.F, f)
		case fd.Kind() == protoreflect.MessageKind:
			if fv.IsNil() {
				continue
			}
			v := valFromRV(fd, fv)
			out.F = append(out.F, &FVal{FD: fd, S: &v})
		case fd.Kind() == protoreflect.BytesKind:
			if fv.IsNil() {
				continue
			}
			v := scalarFromRV(fd.Kind(), fv)
			out.F = append(out.F, &FVal{FD: fd, S: &v, EmptyNonNil: fv.Len() == 0})
		default:
			if fv.Kind() == reflect.Ptr { // proto3 optional (not in the supported subset) - read through
				if fv.IsNil() {
					continue
				}
				fv = fv.Elem()
			}
			v := scalarFromRV(fd.Kind(), fv)
			out.F = append(out.F, &FVal{FD: fd, S: &v})
		}
	}
	return out
}

// Canon drops everything that is not part of the protobuf value: zero scalars
// outside oneofs, empty containers; nil and empty messages stay distinct from
// absent ones (presence), nil list elements read as empty messages.
func Canon(m *Msg) *Msg {
	if m == nil {
		return nil
	}
	out := &Msg{D: m.D, Unk: m.Unk}
	cv := func(fd FD, v Val) Val {
		if fd.Kind() == protoreflect.MessageKind {
			if v.M == nil {
				return Val{M: &Msg{D: fd.Message()}}
			}
			return Val{M: Canon(v.M)}
		}
		return normScalar(fd.Kind(), v)
	}
	for _, f := range m.F {
		nf := &FVal{FD: f.FD}
		switch {
		case f.FD.IsMap():
			for _, e := range f.M {
				nf.M = append(nf.M, KV{K: cv(f.FD.MapKey(), e.K), V: cv(f.FD.MapValue(), e.V)})
			}
			if len(nf.M) == 0 {
				continue
			}
		case f.FD.IsList():
			for _, v := range f.L {
				nf.L = append(nf.L, cv(f.FD, v))
			}
			if len(nf.L) == 0 {
				continue
			}
		default:
			if f.S == nil {
				continue
			}
			if f.FD.Kind() == protoreflect.MessageKind && f.S.M != nil && f.S.M.Nil && !inOneof(f.FD) {
				continue
			}
			v := cv(f.FD, *f.S)
			if !populated(f.FD, &v) {
				continue
			}
			nf.S = &v
		}
		out.F = append(out.F, nf)
	}
	return out
}

// Fingerprint: a strict, order-insensitive digest of the Go struct state
// including nil-vs-empty containers, unknown bytes, sizeCache and the set oneof
// wrapper.  Used by the read-only and aliasing monitors.
func Fingerprint(m proto.Message) string {
	var sb strings.Builder
	fpRV(&sb, reflect.ValueOf(m), 0)
	return sb.String()
}

func fpRV(sb *strings.Builder, rv reflect.Value, depth int) {
	if depth > 200 {
		sb.WriteString("<deep>")
		return
	}
	switch rv.Kind() {
	case reflect.Ptr:
		if rv.IsNil() {
			sb.WriteString("nil")
			return
		}
		sb.WriteString("&")
		fpRV(sb, rv.Elem(), depth+1)
	case reflect.Interface:
		if rv.IsNil() {
			sb.WriteString("inil")
			return
		}
		sb.WriteString("i(" + rv.Elem().Type().String() + ")")
		fpRV(sb, rv.Elem(), depth+1)
	case reflect.Struct:
		sb.WriteString("{")
		t := rv.Type()
		for i := 0; i < rv.NumField(); i++ {
			n := t.Field(i).Name
			if n == "state" || n == "DoNotCompare" || n == "DoNotCopy" || n == "atomicMessageInfo" {
				continue
			}
			if n == "sizeCache" && !isSubjectStruct(t) {
				// protobuf-go's own generated types (well-known types) legitimately cache sizes
				continue
			}
			sb.WriteString(n + ":")
			fpRV(sb, rv.Field(i), depth+1)
			sb.WriteString(";")
		}
		sb.WriteString("}")
	case reflect.Slice:
		if rv.IsNil() {
			sb.WriteString("snil")
			return
		}
		if rv.Type().Elem().Kind() == reflect.Uint8 {
			fmt.Fprintf(sb, "b%d[%x]", rv.Len(), rv.Bytes())
			return
		}
		fmt.Fprintf(sb, "s%d[", rv.Len())
		for i := 0; i < rv.Len(); i++ {
			fpRV(sb, rv.Index(i), depth+1)
			sb.WriteString(",")
		}
		sb.WriteString("]")
	case reflect.Map:
		if rv.IsNil() {
			sb.WriteString("mnil")
			return
		}
		var ents []string
		it := rv.MapRange()
		for it.Next() {
			var e strings.Builder
			fpRV(&e, it.Key(), depth+1)
			e.WriteString("=>")
			fpRV(&e, it.Value(), depth+1)
			ents = append(ents, e.String())
		}
		sort.Strings(ents)
		fmt.Fprintf(sb, "m%d[%s]", rv.Len(), strings.Join(ents, ","))
	case reflect.String:
		fmt.Fprintf(sb, "%q", rv.String())
	case reflect.Bool:
		fmt.Fprintf(sb, "%v", rv.Bool())
	case reflect.Int, reflect.Int8, reflect.Int16, reflect.Int32, reflect.Int64:
		fmt.Fprintf(sb, "%d", rv.Int())
	case reflect.Uint, reflect.Uint8, reflect.Uint16, reflect.Uint32, reflect.Uint64, reflect.Uintptr:
		fmt.Fprintf(sb, "%d", rv.Uint())
	case reflect.Float32:
		fmt.Fprintf(sb, "f%08x", math.Float32bits(float32FromRV(rv)))
	case reflect.Float64:
		fmt.Fprintf(sb, "d%016x", math.Float64bits(rv.Float()))
	case reflect.Array:
		sb.WriteString("a[")
		for i := 0; i < rv.Len(); i++ {
			fpRV(sb, rv.Index(i), depth+1)
		}
		sb.WriteString("]")
	default:
		sb.WriteString("?" + rv.Kind().String())
	}
}

func hash64(s []byte) uint64 {
	h := fnv.New64a()
	h.Write(s)
	return h.Sum64()
}

var (
	subjStructOnce  sync.Once
	subjStructTypes map[reflect.Type]bool
)

func isSubjectStruct(t reflect.Type) bool {
	subjStructOnce.Do(func() {
		subjStructTypes = map[reflect.Type]bool{}
		for _, s := range glue.All() {
			subjStructTypes[reflect.TypeOf(s.Zero).Elem()] = true
		}
	})
	return subjStructTypes[t]
}
