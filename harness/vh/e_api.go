package main

// Engine "api": C19 - generated Go API and descriptors are coherent with the schema.

import (
	"bytes"
	"compress/gzip"
	"fmt"
	cosmos_proto "github.com/cosmos/cosmos-proto"
	"google.golang.org/protobuf/types/descriptorpb"
	"io"
	"math/rand"
	"reflect"
	"strings"

	"github.com/cosmos/cosmos-proto/zzverif/glue"
	"google.golang.org/protobuf/encoding/prototext"
	"google.golang.org/protobuf/proto"
	"google.golang.org/protobuf/reflect/protodesc"
	"google.golang.org/protobuf/reflect/protoreflect"
	"google.golang.org/protobuf/reflect/protoregistry"
)

func init() { engines["api"] = engineAPI }

type apiCtx struct {
	rep *Report
}

func (c *apiCtx) bad(key, typ, detail string) {
	c.rep.Violate("C19", "api/"+key, typ, detail, map[string]interface{}{"engine": "api", "type": typ})
}

// checked-in .proto files: registered path -> location in the work copy (cwd)
var repoProtos = map[string]string{
	"1.proto": "testpb/1.proto", "2.proto": "testpb/2.proto", "3.proto": "testpb/3.proto",
	"internal/testprotos/test3/test.proto":         "internal/testprotos/test3/test.proto",
	"internal/testprotos/test3/test_import.proto":  "internal/testprotos/test3/test_import.proto",
	"internal/testprotos/test3/test_nesting.proto": "internal/testprotos/test3/test_nesting.proto",
	"cosmos_proto/cosmos.proto":                    "proto/cosmos_proto/cosmos.proto",
}

var scalarKinds = map[string]protoreflect.Kind{
	"double": protoreflect.DoubleKind, "float": protoreflect.FloatKind, "int32": protoreflect.Int32Kind, "int64": protoreflect.Int64Kind,
	"uint32": protoreflect.Uint32Kind, "uint64": protoreflect.Uint64Kind, "sint32": protoreflect.Sint32Kind, "sint64": protoreflect.Sint64Kind,
	"fixed32": protoreflect.Fixed32Kind, "fixed64": protoreflect.Fixed64Kind, "sfixed32": protoreflect.Sfixed32Kind, "sfixed64": protoreflect.Sfixed64Kind,
	"bool": protoreflect.BoolKind, "string": protoreflect.StringKind, "bytes": protoreflect.BytesKind,
}

// typeMatches: does the type name written in the .proto denote full (relative names resolve by suffix)?
func typeMatches(written string, full protoreflect.FullName) bool {
	w := strings.TrimPrefix(written, ".")
	return string(full) == w || strings.HasSuffix(string(full), "."+w)
}

func (c *apiCtx) checkOptions(where string, file string, opts []pOption, o proto.Message, std func(name, val string) bool) {
	nCustom := 0
	for _, po := range opts {
		if !strings.HasPrefix(po.Name, "(") {
			if std == nil || !std(po.Name, po.Value) {
				c.bad("schema/option", file, fmt.Sprintf("%s: option %s = %s of the .proto file is not reflected by the registered descriptor", where, po.Name, po.Value))
			}
			continue
		}
		nCustom++
		ext := strings.Trim(po.Name, "()")
		found := false
		if o != nil {
			proto.RangeExtensions(o, func(xt protoreflect.ExtensionType, v interface{}) bool {
				xn := string(xt.TypeDescriptor().FullName())
				if xn == ext || strings.HasSuffix(xn, "."+ext) {
					found = true
					if po.Nested == "" {
						got := fmt.Sprint(v)
						if sl, ok := v.([]string); ok && len(sl) == 1 {
							got = sl[0]
						}
						if got != po.Value && !strings.Contains(got, po.Value) {
							c.bad("schema/option-value", file, fmt.Sprintf("%s: option %s is %q in the registered descriptor, %q in the .proto file", where, po.Name, got, po.Value))
						}
					}
				}
				return true
			})
		}
		if !found {
			c.bad("schema/option-missing", file, fmt.Sprintf("%s: custom option %s = %q of the .proto file is missing from the registered descriptor", where, po.Name, po.Value+po.Nested))
		}
	}
	// no custom option in the descriptor that the file does not have (repeated options count once per name)
	names := map[string]bool{}
	for _, po := range opts {
		if strings.HasPrefix(po.Name, "(") {
			names[strings.Trim(po.Name, "()")] = true
		}
	}
	if o != nil {
		proto.RangeExtensions(o, func(xt protoreflect.ExtensionType, v interface{}) bool {
			xn := string(xt.TypeDescriptor().FullName())
			ok := false
			for n := range names {
				if xn == n || strings.HasSuffix(xn, "."+n) {
					ok = true
				}
			}
			if !ok {
				c.bad("schema/option-extra", file, fmt.Sprintf("%s: registered descriptor carries option %s which the .proto file does not have", where, xn))
			}
			return true
		})
	}
	c.rep.Count("C19", "schema-options-compared", int64(len(opts)))
}

func (c *apiCtx) compareMessage(file string, pm *pMessage, md protoreflect.MessageDescriptor) {
	where := string(md.FullName())
	nReal := 0
	for i := 0; i < md.Fields().Len(); i++ {
		nReal++
	}
	if len(pm.Fields) != nReal {
		c.bad("schema/field-count", file, fmt.Sprintf("%s: %d fields in the .proto file, %d in the registered descriptor", where, len(pm.Fields), nReal))
	}
	for _, pf := range pm.Fields {
		fd := md.Fields().ByName(protoreflect.Name(pf.Name))
		if fd == nil {
			c.bad("schema/field-missing", file, fmt.Sprintf("%s: field %s missing from the registered descriptor", where, pf.Name))
			continue
		}
		fw := where + "." + pf.Name
		if int(fd.Number()) != pf.Number {
			c.bad("schema/field-number", file, fmt.Sprintf("%s: number %d, .proto says %d", fw, fd.Number(), pf.Number))
		}
		checkType := func(written string, d protoreflect.FieldDescriptor) {
			if k, ok := scalarKinds[written]; ok {
				if d.Kind() != k {
					c.bad("schema/field-kind", file, fmt.Sprintf("%s: kind %v, .proto says %s", fw, d.Kind(), written))
				}
				return
			}
			switch d.Kind() {
			case protoreflect.MessageKind:
				if !typeMatches(written, d.Message().FullName()) {
					c.bad("schema/field-type", file, fmt.Sprintf("%s: message type %s, .proto says %s", fw, d.Message().FullName(), written))
				}
			case protoreflect.EnumKind:
				if !typeMatches(written, d.Enum().FullName()) {
					c.bad("schema/field-type", file, fmt.Sprintf("%s: enum type %s, .proto says %s", fw, d.Enum().FullName(), written))
				}
			default:
				c.bad("schema/field-kind", file, fmt.Sprintf("%s: kind %v, .proto says type %s", fw, d.Kind(), written))
			}
		}
		if pf.MapKey != "" {
			if !fd.IsMap() {
				c.bad("schema/field-shape", file, fw+": not a map in the registered descriptor")
				continue
			}
			checkType(pf.MapKey, fd.MapKey())
			checkType(pf.Type, fd.MapValue())
		} else {
			if fd.IsMap() || fd.IsList() != pf.Repeated {
				c.bad("schema/field-shape", file, fmt.Sprintf("%s: cardinality %v, .proto says repeated=%v", fw, fd.Cardinality(), pf.Repeated))
			}
			checkType(pf.Type, fd)
		}
		on := ""
		if od := fd.ContainingOneof(); od != nil && !od.IsSynthetic() {
			on = string(od.Name())
		}
		if on != pf.Oneof {
			c.bad("schema/field-oneof", file, fmt.Sprintf("%s: oneof %q, .proto says %q", fw, on, pf.Oneof))
		}
		c.checkOptions(fw, file, pf.Options, fd.Options(), func(name, val string) bool {
			switch name {
			case "packed":
				return fmt.Sprint(fd.IsPacked()) == val
			case "json_name":
				return fd.JSONName() == val
			case "deprecated":
				return true
			}
			return false
		})
	}
	if len(pm.Oneofs) != realOneofs(md) {
		c.bad("schema/oneof-count", file, fmt.Sprintf("%s: %d oneofs in .proto, %d registered", where, len(pm.Oneofs), realOneofs(md)))
	}
	c.checkOptions(where, file, pm.Options, md.Options(), func(name, val string) bool { return name == "deprecated" })
	nNested := 0
	for i := 0; i < md.Messages().Len(); i++ {
		if !md.Messages().Get(i).IsMapEntry() {
			nNested++
		}
	}
	if nNested != len(pm.Messages) || md.Enums().Len() != len(pm.Enums) {
		c.bad("schema/nested-count", file, fmt.Sprintf("%s: nested messages/enums %d/%d in .proto, %d/%d registered", where, len(pm.Messages), len(pm.Enums), nNested, md.Enums().Len()))
	}
	for _, nm := range pm.Messages {
		if nd := md.Messages().ByName(protoreflect.Name(nm.Name)); nd != nil {
			c.compareMessage(file, nm, nd)
		} else {
			c.bad("schema/message-missing", file, where+"."+nm.Name+" missing from the registered descriptor")
		}
	}
	for _, ne := range pm.Enums {
		if ed := md.Enums().ByName(protoreflect.Name(ne.Name)); ed != nil {
			c.compareEnum(file, ne, ed)
		} else {
			c.bad("schema/enum-missing", file, where+"."+ne.Name+" missing from the registered descriptor")
		}
	}
	c.rep.Count("C19", "schema-messages-compared", 1)
}

func realOneofs(md protoreflect.MessageDescriptor) int {
	n := 0
	for i := 0; i < md.Oneofs().Len(); i++ {
		if !md.Oneofs().Get(i).IsSynthetic() {
			n++
		}
	}
	return n
}

func (c *apiCtx) compareEnum(file string, pe *pEnum, ed protoreflect.EnumDescriptor) {
	if ed.Values().Len() != len(pe.Values) {
		c.bad("schema/enum-values", file, fmt.Sprintf("%s: %d values in .proto, %d registered", ed.FullName(), len(pe.Values), ed.Values().Len()))
	}
	for _, v := range pe.Values {
		vd := ed.Values().ByName(protoreflect.Name(v.Name))
		if vd == nil || int(vd.Number()) != v.Number {
			c.bad("schema/enum-value", file, fmt.Sprintf("%s: value %s = %d of the .proto file not registered like that", ed.FullName(), v.Name, v.Number))
		}
	}
	c.rep.Count("C19", "schema-enums-compared", 1)
}

func (c *apiCtx) compareWithProtoFile(regPath, diskPath string) {
	fd, err := protoregistry.GlobalFiles.FindFileByPath(regPath)
	if err != nil {
		c.bad("registry/file-not-registered", regPath, err.Error())
		return
	}
	pf, err := readProtoFile(diskPath)
	if err != nil {
		c.rep.Inconclusive("C19", "proto-reader-cannot-read/"+regPath)
		if len(c.rep.Notes) < 10 {
			c.rep.Notes = append(c.rep.Notes, fmt.Sprintf("proto reader: %s: %v", diskPath, err))
		}
		return
	}
	c.rep.Eval("C19", []byte("schema-file|"+regPath), true)
	if string(fd.Package()) != pf.Package {
		c.bad("schema/package", regPath, fmt.Sprintf("package %q, .proto says %q", fd.Package(), pf.Package))
	}
	if (fd.Syntax() == protoreflect.Proto3) != (pf.Syntax == "proto3") {
		c.bad("schema/syntax", regPath, "syntax differs")
	}
	imps := map[string]bool{}
	for i := 0; i < fd.Imports().Len(); i++ {
		imps[fd.Imports().Get(i).Path()] = true
	}
	for _, im := range pf.Imports {
		if !imps[im] {
			c.bad("schema/import", regPath, "import "+im+" missing from the registered descriptor")
		}
	}
	if len(imps) != len(pf.Imports) {
		c.bad("schema/import", regPath, fmt.Sprintf("%d imports registered, %d in the .proto file", len(imps), len(pf.Imports)))
	}
	if fd.Messages().Len() != len(pf.Messages) || fd.Enums().Len() != len(pf.Enums) || fd.Services().Len() != len(pf.Services) {
		c.bad("schema/toplevel-count", regPath, fmt.Sprintf("messages/enums/services: %d/%d/%d registered, %d/%d/%d in the .proto file", fd.Messages().Len(), fd.Enums().Len(), fd.Services().Len(), len(pf.Messages), len(pf.Enums), len(pf.Services)))
	}
	for _, pm := range pf.Messages {
		if md := fd.Messages().ByName(protoreflect.Name(pm.Name)); md != nil {
			c.compareMessage(regPath, pm, md)
		} else {
			c.bad("schema/message-missing", regPath, pm.Name+" missing from the registered descriptor")
		}
	}
	for _, pe := range pf.Enums {
		if ed := fd.Enums().ByName(protoreflect.Name(pe.Name)); ed != nil {
			c.compareEnum(regPath, pe, ed)
		} else {
			c.bad("schema/enum-missing", regPath, pe.Name+" missing from the registered descriptor")
		}
	}
	for _, ps := range pf.Services {
		sd := fd.Services().ByName(protoreflect.Name(ps.Name))
		if sd == nil {
			c.bad("schema/service-missing", regPath, ps.Name)
			continue
		}
		if sd.Methods().Len() != len(ps.Methods) {
			c.bad("schema/method-count", regPath, string(sd.FullName()))
		}
		c.checkOptions(string(sd.FullName()), regPath, ps.Options, sd.Options(), nil)
		for _, pmth := range ps.Methods {
			m := sd.Methods().ByName(protoreflect.Name(pmth.Name))
			if m == nil {
				c.bad("schema/method-missing", regPath, pmth.Name)
				continue
			}
			if !typeMatches(pmth.In, m.Input().FullName()) || !typeMatches(pmth.Out, m.Output().FullName()) || m.IsStreamingClient() != pmth.ClientStr || m.IsStreamingServer() != pmth.ServStr {
				c.bad("schema/method-signature", regPath, string(m.FullName()))
			}
			c.checkOptions(string(m.FullName()), regPath, pmth.Options, m.Options(), nil)
		}
	}
	// file options: go_package must match, custom options compared
	c.checkOptions(regPath, regPath, pf.Options, fd.Options(), func(name, val string) bool {
		return true // standard file options such as go_package are rewritten by buf managed mode in cosmos.pb.go: information only
	})
	// extensions declared by the file
	nExt := 0
	for _, ex := range pf.Extends {
		for _, xf := range ex.Fields {
			nExt++
			xd := fd.Extensions().ByName(protoreflect.Name(xf.Name))
			if xd == nil || int(xd.Number()) != xf.Number || !typeMatches(ex.Extendee, xd.ContainingMessage().FullName()) {
				c.bad("schema/extension", regPath, fmt.Sprintf("extension %s = %d of %s not registered like that", xf.Name, xf.Number, ex.Extendee))
			}
		}
	}
	if nExt != fd.Extensions().Len() {
		c.bad("schema/extension-count", regPath, fmt.Sprintf("%d extensions in .proto, %d registered", nExt, fd.Extensions().Len()))
	}
}

// compareWithRequest: the registered file equals the FileDescriptorProto given to the generator.
func (c *apiCtx) compareWithRequest(fd protoreflect.FileDescriptor) {
	loadRequestDescriptors()
	want := reqProto[fd.Path()]
	if want == nil {
		return
	}
	c.rep.Eval("C19", []byte("request-file|"+fd.Path()), true)
	got := protodesc.ToFileDescriptorProto(fd)
	w := proto.Clone(want).(interface {
		proto.Message
	})
	wb, _ := detOpts.Marshal(w)
	gb, _ := detOpts.Marshal(got)
	if !bytes.Equal(wb, gb) {
		// locate the difference through the text form
		a := prototext.MarshalOptions{Multiline: true}.Format(want)
		b := prototext.MarshalOptions{Multiline: true}.Format(got)
		la, lb := strings.Split(a, "\n"), strings.Split(b, "\n")
		diff := "(binary difference only)"
		for i := 0; i < len(la) && i < len(lb); i++ {
			if strings.TrimSpace(la[i]) != strings.TrimSpace(lb[i]) {
				diff = fmt.Sprintf("line %d: schema %q, registered %q", i+1, strings.TrimSpace(la[i]), strings.TrimSpace(lb[i]))
				break
			}
		}
		if diff == "(binary difference only)" && len(la) != len(lb) {
			diff = fmt.Sprintf("schema has %d lines, registered descriptor %d", len(la), len(lb))
		}
		c.bad("schema/registered-differs-from-request", fd.Path(), "the registered file descriptor differs from the schema given to the generator: "+diff)
	}
	c.rep.Count("C19", "request-files-compared", 1)
}

func goFieldForNumber(t reflect.Type, num protoreflect.FieldNumber) (reflect.StructField, bool) {
	for i := 0; i < t.NumField(); i++ {
		if tag, ok := t.Field(i).Tag.Lookup("protobuf"); ok {
			if n, ok := tagNumber(tag); ok && n == num {
				return t.Field(i), true
			}
		}
	}
	return reflect.StructField{}, false
}

// structural coherence of one message type
func (c *apiCtx) messageStructure(s *glue.Subject) {
	tn := string(s.FullName)
	d := s.Zero.ProtoReflect().Descriptor()
	c.rep.Eval("C19", []byte("structure|"+tn), true)
	// registry round trip
	mt, err := protoregistry.GlobalTypes.FindMessageByName(s.FullName)
	if err != nil {
		c.bad("registry/message-not-found", tn, err.Error())
		return
	}
	nm := mt.New().Interface()
	if reflect.TypeOf(nm) != reflect.TypeOf(s.Zero) {
		c.bad("registry/wrong-go-type", tn, fmt.Sprintf("GlobalTypes maps %s to Go type %T, the subject type is %T", tn, nm, s.Zero))
	}
	if mt.Descriptor() != d {
		c.bad("registry/descriptor-identity", tn, "the message type's descriptor is not the one the message reports")
	}
	fdesc, err := protoregistry.GlobalFiles.FindDescriptorByName(s.FullName)
	if err != nil || fdesc != protoreflect.Descriptor(d) {
		c.bad("registry/descriptor-identity", tn, fmt.Sprintf("GlobalFiles holds another descriptor for %s (err=%v)", tn, err))
	}
	if pf, err := protoregistry.GlobalFiles.FindFileByPath(d.ParentFile().Path()); err != nil || pf != d.ParentFile() {
		c.bad("registry/file-identity", tn, "parent file is not the registered file")
	}
	m := newOf(s.Zero).ProtoReflect()
	for what, x := range map[string]proto.Message{"Type().New()": m.Type().New().Interface(), "Type().Zero()": m.Type().Zero().Interface(), "New()": m.New().Interface(), "Interface()": m.Interface()} {
		if reflect.TypeOf(x) != reflect.TypeOf(s.Zero) {
			c.bad("type/wrong-go-type", tn, fmt.Sprintf("%s yields %T", what, x))
		}
	}
	if m.Type().Descriptor() != d || m.Descriptor() != d {
		c.bad("type/descriptor-identity", tn, "Type().Descriptor() / Descriptor() differ from the registered descriptor")
	}
	if m.Type().Zero().IsValid() {
		c.bad("type/zero-valid", tn, "Type().Zero() is a valid (mutable) message")
	}
	// the deprecated accessor Descriptor() ([]byte, []int): gzip-compressed FileDescriptorProto of the registered
	// file plus the index path of this message in it
	if dm, ok := s.Zero.(interface{ Descriptor() ([]byte, []int) }); ok {
		var gz []byte
		var path []int
		pan, pmsg := safely(func() { gz, path = dm.Descriptor() })
		c.rep.Count("C19", "legacy-descriptor-accessors-checked", 1)
		if pan {
			c.bad("legacy-descriptor/panic", tn, pmsg)
		} else {
			var fdp descriptorpb.FileDescriptorProto
			zr, err := gzip.NewReader(bytes.NewReader(gz))
			var raw []byte
			if err == nil {
				raw, err = io.ReadAll(zr)
			}
			if err == nil {
				err = proto.Unmarshal(raw, &fdp)
			}
			switch {
			case err != nil:
				c.bad("legacy-descriptor/undecodable", tn, "Descriptor() bytes: "+err.Error())
			case fdp.GetName() != d.ParentFile().Path():
				c.bad("legacy-descriptor/other-file", tn, fmt.Sprintf("Descriptor() bytes describe file %q, the message belongs to %q", fdp.GetName(), d.ParentFile().Path()))
			default:
				// follow the index path
				var cur *descriptorpb.DescriptorProto
				okPath := len(path) > 0
				for k, ix := range path {
					var list []*descriptorpb.DescriptorProto
					if k == 0 {
						list = fdp.GetMessageType()
					} else {
						list = cur.GetNestedType()
					}
					if ix < 0 || ix >= len(list) {
						okPath = false
						break
					}
					cur = list[ix]
				}
				if !okPath || cur.GetName() != string(d.Name()) {
					c.bad("legacy-descriptor/path", tn, fmt.Sprintf("Descriptor() index path %v does not lead to message %s", path, d.Name()))
				}
			}
		}
	}
	// imports of the registered file resolve to the registered files, not to placeholders
	imps := d.ParentFile().Imports()
	for i := 0; i < imps.Len(); i++ {
		imp := imps.Get(i)
		if rf, err := protoregistry.GlobalFiles.FindFileByPath(imp.Path()); err == nil && (imp.IsPlaceholder() || imp.FileDescriptor != rf) {
			c.bad("registry/import-is-placeholder", tn, fmt.Sprintf("file %s: import %s is registered, but the file's import entry is a placeholder / another descriptor (placeholder=%v)", d.ParentFile().Path(), imp.Path(), imp.IsPlaceholder()))
		}
	}
	// struct fields vs descriptor fields
	st := reflect.TypeOf(s.Zero).Elem()
	fs := d.Fields()
	for i := 0; i < fs.Len(); i++ {
		fd := fs.Get(i)
		// the type a field refers to is the registered descriptor itself
		for _, ref := range []protoreflect.Descriptor{fd.Message(), fd.Enum(), mapValueMessage(fd), mapValueEnum(fd)} {
			if ref == nil || reflect.ValueOf(ref).IsNil() {
				continue
			}
			reg, err := protoregistry.GlobalFiles.FindDescriptorByName(ref.FullName())
			if ref.IsPlaceholder() || (err == nil && reg != ref) {
				c.bad("registry/field-type-not-the-registered-descriptor", tn, fmt.Sprintf("field %s refers to %s through a placeholder / another descriptor object (placeholder=%v, registered=%v)", fd.Name(), ref.FullName(), ref.IsPlaceholder(), err == nil))
			}
			c.rep.Count("C19", "field-type-references-checked", 1)
		}
		var sf reflect.StructField
		var ft reflect.Type
		if inOneof(fd) {
			// find the wrapper through a scratch struct
			scratch := BuildStruct(s.Zero, &Msg{D: d, F: []*FVal{{FD: fd, S: oneofZero(fd)}}})
			rv := reflect.ValueOf(scratch).Elem()
			found := false
			for k := 0; k < rv.NumField(); k++ {
				if on, ok := rv.Type().Field(k).Tag.Lookup("protobuf_oneof"); ok && on == string(fd.ContainingOneof().Name()) && !rv.Field(k).IsNil() {
					wt := rv.Field(k).Elem().Type().Elem()
					sf, ft, found = wt.Field(0), wt.Field(0).Type, true
				}
			}
			if !found {
				c.bad("struct/oneof-field", tn, "no oneof interface field for "+string(fd.Name()))
				continue
			}
		} else {
			var ok bool
			sf, ok = goFieldForNumber(st, fd.Number())
			if !ok {
				c.bad("struct/field-missing", tn, fmt.Sprintf("no Go struct field tagged with number %d (%s)", fd.Number(), fd.Name()))
				continue
			}
			ft = sf.Type
		}
		tag := sf.Tag.Get("protobuf")
		if !strings.Contains(tag, "name="+string(fd.Name())) {
			c.bad("struct/tag-name", tn, fmt.Sprintf("field %s: struct tag %q", fd.Name(), tag))
		}
		// element Go type of message / enum fields must be the Go type of the field's descriptor
		et := ft
		if fd.IsMap() {
			et = ft.Elem()
		} else if fd.IsList() {
			et = ft.Elem()
		}
		switch {
		case fd.Kind() == protoreflect.MessageKind && !fd.IsMap(), fd.IsMap() && fd.MapValue().Kind() == protoreflect.MessageKind:
			want := fd.Message()
			if fd.IsMap() {
				want = fd.MapValue().Message()
			}
			if et.Kind() == reflect.Ptr {
				if pm, ok := reflect.New(et.Elem()).Interface().(proto.Message); ok {
					if got := pm.ProtoReflect().Descriptor(); got.FullName() != want.FullName() {
						c.bad("struct/message-field-type", tn, fmt.Sprintf("field %s has Go type %v whose descriptor is %s; the schema says %s", fd.Name(), et, got.FullName(), want.FullName()))
					}
				}
			}
		case fd.Kind() == protoreflect.EnumKind && !fd.IsMap(), fd.IsMap() && fd.MapValue().Kind() == protoreflect.EnumKind:
			want := fd.Enum()
			if fd.IsMap() {
				want = fd.MapValue().Enum()
			}
			if en, ok := reflect.Zero(et).Interface().(protoreflect.Enum); ok {
				if en.Descriptor().FullName() != want.FullName() {
					c.bad("struct/enum-field-type", tn, fmt.Sprintf("field %s has Go enum type %v whose descriptor is %s; the schema says %s", fd.Name(), et, en.Descriptor().FullName(), want.FullName()))
				}
			}
		}
		c.rep.Count("C19", "struct-fields-checked", 1)
	}
}

func oneofZero(fd FD) *Val {
	if fd.Kind() == protoreflect.MessageKind {
		return &Val{M: &Msg{D: fd.Message()}}
	}
	return &Val{}
}

func (c *apiCtx) enumCoherence(ed protoreflect.EnumDescriptor) {
	name := string(ed.FullName())
	c.rep.Eval("C19", []byte("enum|"+name), true)
	et, err := protoregistry.GlobalTypes.FindEnumByName(ed.FullName())
	if err != nil {
		c.bad("registry/enum-not-found", name, err.Error())
		return
	}
	if et.Descriptor() != ed {
		c.bad("registry/enum-descriptor-identity", name, "enum type's descriptor is not the registered one")
	}
	for i := 0; i < ed.Values().Len(); i++ {
		vd := ed.Values().Get(i)
		ev := et.New(vd.Number())
		if ev.Number() != vd.Number() {
			c.bad("enum/number", name, fmt.Sprintf("New(%d).Number() = %d", vd.Number(), ev.Number()))
		}
		if ev.Descriptor() != ed {
			c.bad("enum/descriptor", name, fmt.Sprintf("%T.Descriptor() is %s", ev, ev.Descriptor().FullName()))
		}
		// first declared name for the number (aliases): String gives a declared name of that number
		if s, ok := ev.(fmt.Stringer); ok {
			want := ed.Values().ByNumber(vd.Number()).Name()
			if s.String() != string(want) {
				c.bad("enum/string", name, fmt.Sprintf("%T(%d).String() = %q, schema says %q", ev, vd.Number(), s.String(), want))
			}
		} else {
			c.bad("enum/no-string", name, "enum type has no String method")
		}
		c.rep.Count("C19", "enum-values-checked", 1)
	}
	// an undeclared number prints as the number
	if ed.Values().ByNumber(4242) == nil {
		if s, ok := et.New(4242).(fmt.Stringer); ok && s.String() != "4242" {
			c.bad("enum/string-undeclared", name, "String of an undeclared number: "+s.String())
		}
	}
}

// value-level coherence of the plain Go API with reflection
func (c *apiCtx) valueAPI(s *glue.Subject, idx int) {
	tn := string(s.FullName)
	d := s.Zero.ProtoReflect().Descriptor()
	seed := caseSeed(*flagSeed, tn, idx, "api")
	o := defaultGen()
	o.NoSNaN = true
	o.ValidEnums = true
	g := NewGen(seed, o)
	v := g.Msg(d, 0)
	dropForeignNegZero(v, false)
	want := SpecEncode(Canon(v))
	S := BuildStruct(s.Zero, v)
	c.rep.Eval("C19", append([]byte("value|"+tn), want...), len(v.F) > 0)
	if idx == 0 && len(c.rep.P("C19").Samples) < 3 {
		c.rep.Sample("C19", map[string]string{"type": tn, "value_hex": hx(want)})
	}
	rc := replayCase{Engine: "api", Type: tn, Seed: *flagSeed, Index: idx, Value: hx(want)}
	bad := func(key, detail string) { c.rep.Violate("C19", "api/"+key, tn, detail, rc) }
	// getters vs Get, on the populated message and on the nil receiver
	nilPtr := reflect.Zero(reflect.TypeOf(s.Zero))
	for _, recv := range []reflect.Value{reflect.ValueOf(S), nilPtr} {
		isNil := recv.IsNil()
		r := recv.Interface().(proto.Message).ProtoReflect()
		fs := d.Fields()
		for i := 0; i < fs.Len(); i++ {
			fd := fs.Get(i)
			var goName string
			if inOneof(fd) {
				scratch := BuildStruct(s.Zero, &Msg{D: d, F: []*FVal{{FD: fd, S: oneofZero(fd)}}})
				rv := reflect.ValueOf(scratch).Elem()
				for k := 0; k < rv.NumField(); k++ {
					if on, ok := rv.Type().Field(k).Tag.Lookup("protobuf_oneof"); ok && on == string(fd.ContainingOneof().Name()) && !rv.Field(k).IsNil() {
						goName = rv.Field(k).Elem().Type().Elem().Field(0).Name
					}
				}
			} else if sf, ok := goFieldForNumber(reflect.TypeOf(s.Zero).Elem(), fd.Number()); ok {
				goName = sf.Name
			}
			mth := recv.MethodByName("Get" + goName)
			if goName == "" || !mth.IsValid() {
				bad("getter/missing", fmt.Sprintf("no getter Get%s for field %s", goName, fd.Name()))
				continue
			}
			var out reflect.Value
			var viaGet protoreflect.Value
			pan, pmsg := safely(func() { out = mth.Call(nil)[0]; viaGet = r.Get(fd) })
			c.rep.Count("C19", "getter-comparisons", 1)
			if pan {
				bad("getter/panic", fmt.Sprintf("Get%s / Get(%s) on nil=%v receiver: %s", goName, fd.Name(), isNil, pmsg))
				continue
			}
			var a, b string
			switch {
			case fd.IsMap():
				f := &FVal{FD: fd}
				if !out.IsNil() {
					it := out.MapRange()
					for it.Next() {
						f.M = append(f.M, KV{K: valFromRV(fd.MapKey(), it.Key()), V: valFromRV(fd.MapValue(), it.Value())})
					}
				}
				a = fmt.Sprintf("%x", SpecEncode(quietF32(Canon(&Msg{D: d, F: []*FVal{f}}))))
				b = fmt.Sprintf("%x", SpecEncode(quietF32(Canon(&Msg{D: d, F: []*FVal{fvalFromValue(fd, viaGet)}}))))
			case fd.IsList():
				f := &FVal{FD: fd}
				for j := 0; j < out.Len(); j++ {
					f.L = append(f.L, valFromRV(fd, out.Index(j)))
				}
				a = fmt.Sprintf("%x", SpecEncode(quietF32(Canon(&Msg{D: d, F: []*FVal{f}}))))
				b = fmt.Sprintf("%x", SpecEncode(quietF32(Canon(&Msg{D: d, F: []*FVal{fvalFromValue(fd, viaGet)}}))))
			case fd.Kind() == protoreflect.MessageKind:
				// nil getter result <=> invalid (unpopulated) message from Get
				if out.IsNil() != !viaGet.Message().IsValid() {
					a, b = fmt.Sprint("nil=", out.IsNil()), fmt.Sprint("valid=", viaGet.Message().IsValid())
				} else if !out.IsNil() {
					a = fmt.Sprintf("%x", SpecEncode(quietF32(Canon(StructToIR(out.Interface().(proto.Message))))))
					b = fmt.Sprintf("%x", SpecEncode(quietF32(Canon(ReflToIR(viaGet.Message())))))
				}
			default:
				x, y := quietVal(fd, valFromRV(fd, out)), quietVal(fd, valFromValue(fd, viaGet))
				a, b = fmt.Sprintf("%x/%x", x.U, x.B), fmt.Sprintf("%x/%x", y.U, y.B)
			}
			if a != b {
				bad("getter/differs-from-get", fmt.Sprintf("nil receiver=%v: Get%s() = %s, Get(%s) = %s", isNil, goName, trunc(a), fd.Name(), trunc(b)))
			}
		}
	}
	// String renders text that parses back to an equal message (values without unknown fields:
	// the text form of unknown fields is not parseable by design; NaN payloads are not carried by
	// the text form either, so the expectation is what the reference text codec round-trips to)
	o2 := o
	o2.Unknown = false
	v3 := NewGen(seed^0x51, o2).Msg(d, 0)
	dropForeignNegZero(v3, false)
	S3 := BuildStruct(s.Zero, v3)
	if idx%3 == 1 {
		// message state with nil pointers as list elements / map values (they read as empty messages)
		if nilOutMessages(reflect.ValueOf(S3), rand.New(rand.NewSource(seed^0x77)), 0) > 0 {
			v3 = Canon(StructToIR(S3))
			c.rep.Count("C19", "string-states-with-nil-elements", 1)
		}
	}
	if st, ok := S3.(fmt.Stringer); ok {
		var txt string
		pan, pmsg := safely(func() { txt = st.String() })
		if pan {
			bad("string/panic", pmsg)
		} else if refTxt, refErr := prototext.Marshal(BuildDyn(v3)); refErr == nil {
			refBack := BuildDyn(&Msg{D: d})
			if prototext.Unmarshal(refTxt, refBack) == nil {
				wantBack, _ := detOpts.Marshal(refBack)
				back := newOf(s.Zero)
				if err := prototext.Unmarshal([]byte(txt), back); err != nil {
					bad("string/does-not-parse", fmt.Sprintf("String() output does not parse: %v; %s", err, trunc(txt)))
				} else if got := SpecEncode(quietF32(Canon(StructToIR(back)))); !bytes.Equal(got, wantBack) {
					bad("string/parses-to-other-value", "String() parses back to another message: "+firstDiff(got, wantBack))
				}
				c.rep.Count("C19", "string-roundtrips", 1)
			}
		}
	} else {
		bad("string/missing", "no String method")
	}
	// Reset empties the message
	if rs, ok := S.(interface{ Reset() }); ok {
		rs.Reset()
		if ir := Canon(StructToIR(S)); len(ir.F) != 0 || len(ir.Unk) != 0 {
			bad("reset", fmt.Sprintf("after Reset() the message still holds %x", SpecEncode(ir)))
		}
		if Fingerprint(S) != Fingerprint(newOf(s.Zero)) {
			bad("reset-struct", "after Reset() the Go struct differs from a new one")
		}
		// a message that has been Reset is a fully working empty message of the same type
		pan, pmsg := safely(func() {
			if S.ProtoReflect().Descriptor() != d {
				panic("VIOLATION after Reset() the message reports descriptor " + string(S.ProtoReflect().Descriptor().FullName()))
			}
			if !proto.Equal(S, newOf(s.Zero)) || !proto.Equal(newOf(s.Zero), S) {
				panic("VIOLATION after Reset() the message is not Equal to a new one")
			}
			if err := proto.Unmarshal(want, S); err != nil {
				panic("VIOLATION Unmarshal into a Reset message: " + err.Error())
			}
			if got := SpecEncode(Canon(StructToIR(S))); !bytes.Equal(got, want) {
				panic("VIOLATION a Reset message decodes the value differently: " + firstDiff(got, want))
			}
			if got := SpecEncode(quietF32(Canon(ReflToIR(S.ProtoReflect())))); !bytes.Equal(got, SpecEncode(quietF32(Canon(v)))) {
				panic("VIOLATION reflection over a Reset-then-decoded message shows another value: " + firstDiff(got, want))
			}
			if st, ok := S.(fmt.Stringer); ok {
				_ = st.String()
			}
		})
		if pan {
			bad("reset-then-use", pmsg)
		}
	} else {
		bad("reset/missing", "no Reset method")
	}
}

func quietVal(fd FD, v Val) Val {
	if fd.Kind() == protoreflect.FloatKind {
		u := uint32(v.U)
		if u&0x7f800000 == 0x7f800000 && u&0x007fffff != 0 {
			u |= 0x00400000
		}
		return Val{U: uint64(u)}
	}
	return v
}

func fvalFromValue(fd FD, v protoreflect.Value) *FVal {
	f := &FVal{FD: fd}
	switch {
	case fd.IsMap():
		v.Map().Range(func(k protoreflect.MapKey, mv protoreflect.Value) bool {
			f.M = append(f.M, KV{K: valFromValue(fd.MapKey(), k.Value()), V: valFromValue(fd.MapValue(), mv)})
			return true
		})
	case fd.IsList():
		for i := 0; i < v.List().Len(); i++ {
			f.L = append(f.L, valFromValue(fd, v.List().Get(i)))
		}
	}
	return f
}

func engineAPI(rep *Report) {
	c := &apiCtx{rep: rep}
	si, _ := shard()
	subs := allSubjects()
	if si == 0 {
		// file-level checks once
		for reg, disk := range repoProtos {
			guardCase(rep, "C19", "api", reg, 0, func() { c.compareWithProtoFile(reg, disk) })
		}
		seenFiles := map[string]bool{}
		seenEnums := map[protoreflect.FullName]bool{}
		var walkEnums func(es protoreflect.EnumDescriptors)
		walkEnums = func(es protoreflect.EnumDescriptors) {
			for i := 0; i < es.Len(); i++ {
				if !seenEnums[es.Get(i).FullName()] {
					seenEnums[es.Get(i).FullName()] = true
					e := es.Get(i)
					guardCase(rep, "C19", "api", string(e.FullName()), 0, func() { c.enumCoherence(e) })
				}
			}
		}
		var walkMsgs func(ms protoreflect.MessageDescriptors)
		walkMsgs = func(ms protoreflect.MessageDescriptors) {
			for i := 0; i < ms.Len(); i++ {
				walkEnums(ms.Get(i).Enums())
				walkMsgs(ms.Get(i).Messages())
			}
		}
		for _, s := range glue.All() {
			f := s.Zero.ProtoReflect().Descriptor().ParentFile()
			if seenFiles[f.Path()] {
				continue
			}
			seenFiles[f.Path()] = true
			guardCase(rep, "C19", "api", f.Path(), 0, func() { c.compareWithRequest(f) })
			walkEnums(f.Enums())
			walkMsgs(f.Messages())
		}
		guardCase(rep, "C19", "api", "extension-variables", 0, func() { c.extensionVars() })
		guardCase(rep, "C19", "api", "request-files-registered", 0, func() { c.requestFilesRegistered() })
		// the root package (stock protoc-gen-go output) is a subject of C19 too
		if f, err := protoregistry.GlobalFiles.FindFileByPath("cosmos_proto/cosmos.proto"); err == nil {
			walkEnums(f.Enums())
		}
	}
	n := perType(25, 1500)
	only := onlyIndex()
	if si == 0 {
		// the messages of the root package (stock protoc-gen-go output in cosmos.pb.go) are part of C19 as well
		for _, z := range []proto.Message{(*cosmos_proto.InterfaceDescriptor)(nil), (*cosmos_proto.ScalarDescriptor)(nil)} {
			subs = append(subs, &glue.Subject{FullName: z.ProtoReflect().Descriptor().FullName(), Zero: z, Origin: "checked-in"})
		}
	}
	for ti, s := range subs {
		s := s
		rep.Types = append(rep.Types, string(s.FullName))
		if mineCase(ti, 0) {
			guardCase(rep, "C19", "api", string(s.FullName), -1, func() { c.messageStructure(s) })
		}
		for i := 0; i < n; i++ {
			if only < 0 && !mineCase(ti, i) {
				continue
			}
			if only >= 0 && i != only {
				continue
			}
			i := i
			guardCase(rep, "C19", "api", string(s.FullName), i, func() { c.valueAPI(s, i) })
		}
	}
}

func mapValueMessage(fd FD) protoreflect.Descriptor {
	if fd.IsMap() && fd.MapValue().Message() != nil {
		return fd.MapValue().Message()
	}
	return nil
}

func mapValueEnum(fd FD) protoreflect.Descriptor {
	if fd.IsMap() && fd.MapValue().Enum() != nil {
		return fd.MapValue().Enum()
	}
	return nil
}

// goCamel: the Go name protoc-gen-go derives from a proto identifier (underscore + lower-case letter -> upper case).
func goCamel(s string) string {
	var b []byte
	for i := 0; i < len(s); i++ {
		c := s[i]
		switch {
		case c == '_' && i+1 < len(s) && s[i+1] >= 'a' && s[i+1] <= 'z':
			b = append(b, s[i+1]-'a'+'A')
			i++
		case i == 0 && c >= 'a' && c <= 'z':
			b = append(b, c-'a'+'A')
		case i == 0 && c == '_':
			b = append(b, 'X')
		default:
			b = append(b, c)
		}
	}
	return string(b)
}

// extensionVars: every generated extension variable E_<Name> is the extension type of the extension of that name,
// the one the registry holds under the full name and under (extendee, number), and describes what the schema says.
func (c *apiCtx) extensionVars() {
	for _, ev := range glue.ExtVars() {
		what := ev.Package + "." + ev.GoName
		c.rep.Eval("C19", []byte("extvar|"+what), true)
		c.rep.Count("C19", "extension-variables-checked", 1)
		var xd protoreflect.ExtensionTypeDescriptor
		pan, pmsg := safely(func() { xd = ev.Type.TypeDescriptor() })
		if pan || xd == nil {
			c.bad("extension/var-unusable", what, "TypeDescriptor(): "+pmsg)
			continue
		}
		want := "E_" + goCamel(string(xd.Name()))
		if p, ok := xd.Parent().(protoreflect.MessageDescriptor); ok {
			want = "E_" + goCamel(string(p.Name())) + "_" + string(xd.Name()) // (declared inside a message: not in the corpus)
			_ = want
			continue
		}
		if want != ev.GoName {
			c.bad("extension/var-names-another-extension", what, fmt.Sprintf("variable %s holds the extension type of %s (expected the extension whose Go name is %s)", ev.GoName, xd.FullName(), ev.GoName))
			continue
		}
		if byName, err := protoregistry.GlobalTypes.FindExtensionByName(xd.FullName()); err != nil || byName != ev.Type {
			c.bad("extension/registry-holds-another-type", what, fmt.Sprintf("GlobalTypes.FindExtensionByName(%s): err=%v, same object as the variable: %v", xd.FullName(), err, byName == ev.Type))
		}
		if byNum, err := protoregistry.GlobalTypes.FindExtensionByNumber(xd.ContainingMessage().FullName(), xd.Number()); err != nil || byNum != ev.Type {
			c.bad("extension/registry-holds-another-type", what, fmt.Sprintf("GlobalTypes.FindExtensionByNumber(%s, %d): err=%v, same object: %v", xd.ContainingMessage().FullName(), xd.Number(), err, byNum == ev.Type))
		}
		if fdesc, err := protoregistry.GlobalFiles.FindDescriptorByName(xd.FullName()); err != nil || fdesc.(protoreflect.FieldDescriptor).Number() != xd.Number() || fdesc.(protoreflect.FieldDescriptor).Kind() != xd.Kind() {
			c.bad("extension/descriptor-differs", what, fmt.Sprintf("GlobalFiles descriptor of %s differs from the variable's (err=%v)", xd.FullName(), err))
		}
		// the value type follows the declared kind
		pan, pmsg = safely(func() {
			v := ev.Type.New()
			if xd.IsList() {
				_ = v.List().Len()
			} else if xd.Kind() == protoreflect.MessageKind {
				if v.Message().Descriptor().FullName() != xd.Message().FullName() {
					panic("New() yields a message of type " + string(v.Message().Descriptor().FullName()))
				}
			}
			_ = ev.Type.InterfaceOf(ev.Type.Zero())
		})
		if pan {
			c.bad("extension/value-type", what, pmsg)
		}
	}
}

// requestFilesRegistered: every schema file given to the generator whose Go package is linked into this binary
// (some file of the same Go import path is registered) is registered itself - also files that declare no message
// (enums, extensions or services only).
func (c *apiCtx) requestFilesRegistered() {
	loadRequestDescriptors()
	goPkg := func(o protoreflect.ProtoMessage) string {
		fo, _ := o.(*descriptorpb.FileOptions)
		p := fo.GetGoPackage()
		if i := strings.Index(p, ";"); i >= 0 {
			p = p[:i]
		}
		return p
	}
	linked := map[string]bool{}
	protoregistry.GlobalFiles.RangeFiles(func(fd protoreflect.FileDescriptor) bool {
		if p := goPkg(fd.Options()); p != "" {
			linked[p] = true
		}
		return true
	})
	for name, fp := range reqProto {
		if !strings.HasPrefix(name, "zzgen/") {
			continue
		}
		p := goPkg(fp.GetOptions())
		if p == "" || !linked[p] {
			continue
		}
		c.rep.Eval("C19", []byte("request-file-registered|"+name), true)
		c.rep.Count("C19", "request-files-looked-up", 1)
		if _, err := protoregistry.GlobalFiles.FindFileByPath(name); err != nil {
			c.bad("schema/file-not-registered", name, fmt.Sprintf("the schema file %s (Go package %s, which is linked into this program) was given to the generator but no file of that path is registered: %v", name, p, err))
			continue
		}
		for _, e := range fp.GetEnumType() {
			full := protoreflect.FullName(fp.GetPackage() + "." + e.GetName())
			if fp.GetPackage() == "" {
				full = protoreflect.FullName(e.GetName())
			}
			if _, err := protoregistry.GlobalTypes.FindEnumByName(full); err != nil {
				c.bad("registry/enum-not-found", name, fmt.Sprintf("enum %s of %s is not reachable through the type registry: %v", full, name, err))
			}
		}
	}
}
