package main

// Engine "conc": C11 - concurrent readers of a shared message are race-free.
// Built with -race.  The race detector (happens-before based) is the monitor for
// hidden writes on read paths; per-goroutine results are compared with a
// sequential result.  For every type the very first use of its codec/reflection
// paths happens concurrently (lazy one-time initialisation is raced too).

import (
	"fmt"
	"google.golang.org/protobuf/encoding/protowire"
	"math/rand"
	"reflect"
	"sync"

	"github.com/cosmos/cosmos-proto/anyutil"
	"github.com/cosmos/cosmos-proto/zzverif/glue"
	"google.golang.org/protobuf/encoding/protojson"
	"google.golang.org/protobuf/encoding/prototext"
	"google.golang.org/protobuf/proto"
	"google.golang.org/protobuf/reflect/protoreflect"
	"google.golang.org/protobuf/reflect/protoregistry"
	"google.golang.org/protobuf/types/known/anypb"
)

func init() { engines["conc"] = engineConc }

type concOp struct {
	name string
	f    func(m, other proto.Message) string
}

// scribble: the caller owns the bytes Marshal returned and goes on using them (overwrites them, appends a trailer)
func scribble(b []byte) {
	for i := range b {
		b[i] ^= 0xff
	}
	b = append(b, 0xa5, 0x5a, 0xa5, 0x5a)
	_ = b
}

func concOps() []concOp {
	return []concOp{
		{"Size", func(m, _ proto.Message) string { return fmt.Sprint(proto.Size(m)) }},
		{"Marshal", func(m, _ proto.Message) string {
			b, err := proto.Marshal(m)
			// map order varies: compare by canonical re-encoding
			d, _ := SpecDecode(m.ProtoReflect().Descriptor(), b, SpecOpts{})
			res := fmt.Sprintf("%x %v", SpecEncode(Canon(d)), err)
			scribble(b)
			return res
		}},
		{"Marshal(det)", func(m, _ proto.Message) string {
			b, err := detOpts.Marshal(m)
			res := fmt.Sprintf("%x %v", b, err)
			scribble(b)
			return res
		}},
		{"Has/Get(every field)", func(m, _ proto.Message) string {
			r := m.ProtoReflect()
			fs := r.Descriptor().Fields()
			out := ""
			for i := 0; i < fs.Len(); i++ {
				fd := fs.Get(i)
				out += fmt.Sprintf("%v:%s;", r.Has(fd), digestValue(fd, r.Get(fd)))
			}
			return out
		}},
		{"Range", func(m, _ proto.Message) string {
			return fmt.Sprintf("%x", SpecEncode(quietF32(Canon(ReflToIR(m.ProtoReflect())))))
		}},
		{"WhichOneof", func(m, _ proto.Message) string {
			r := m.ProtoReflect()
			os := r.Descriptor().Oneofs()
			out := ""
			for i := 0; i < os.Len(); i++ {
				if f := r.WhichOneof(os.Get(i)); f != nil {
					out += string(f.Name()) + ";"
				} else {
					out += "-;"
				}
			}
			return out + fmt.Sprintf("%x", []byte(r.GetUnknown()))
		}},
		{"Equal", func(m, o proto.Message) string {
			return fmt.Sprint(proto.Equal(m, o), proto.Equal(o, m), proto.Equal(m, m))
		}},
		{"Clone(from)", func(m, _ proto.Message) string {
			c := proto.Clone(m)
			b, _ := detOpts.Marshal(c)
			return fmt.Sprintf("%x", b)
		}},
		{"Merge(from)", func(m, o proto.Message) string {
			c := proto.Clone(o)
			proto.Merge(c, m)
			return fmt.Sprint(proto.Size(c))
		}},
		{"protojson", func(m, _ proto.Message) string {
			b, err := protojson.Marshal(m)
			return fmt.Sprintf("%s %v", b, err != nil)
		}},
		{"protojson(EmitUnpopulated)", func(m, _ proto.Message) string {
			b, err := protojson.MarshalOptions{EmitUnpopulated: true}.Marshal(m)
			return fmt.Sprintf("%s %v", b, err != nil)
		}},
		{"prototext", func(m, _ proto.Message) string {
			b, err := prototext.Marshal(m)
			return fmt.Sprintf("%s %v", b, err != nil)
		}},
		{"getters", func(m, _ proto.Message) string {
			rv := reflect.ValueOf(m)
			n := 0
			for i := 0; i < rv.NumMethod(); i++ {
				mt := rv.Type().Method(i)
				if len(mt.Name) > 3 && mt.Name[:3] == "Get" && mt.Type.NumIn() == 1 && mt.Type.NumOut() == 1 {
					rv.Method(i).Call(nil)
					n++
				}
			}
			if s, ok := m.(fmt.Stringer); ok {
				_ = s.String()
			}
			return fmt.Sprint(n)
		}},
		{"slow-reference(first use)", func(m, _ proto.Message) string {
			return fmt.Sprintf("%x", SpecEncode(quietF32(Canon(ReflToIR(slowView(m))))))
		}},
		{"CheckInitialized", func(m, _ proto.Message) string { return fmt.Sprint(proto.CheckInitialized(m) == nil) }},
		{"anyutil.New(shared Any) / Size+Marshal(shared Any)", func(m, _ proto.Message) string {
			// the shared Any itself is read as a message: packed again, sized and marshalled
			a := concAny
			if a == nil {
				return ""
			}
			p, err := anyutil.New(a)
			if err != nil {
				return err.Error()
			}
			b, _ := proto.Marshal(a)
			return fmt.Sprintf("%s %x %d %x", p.GetTypeUrl(), p.GetValue(), proto.Size(a), b)
		}},
		{"anyutil.Unpack(shared Any, both resolver paths)", func(m, _ proto.Message) string {
			// a shared Any holding the value: unpacked through the type registry and through the file registry
			a := concAny
			if a == nil {
				return ""
			}
			u1, e1 := anyutil.Unpack(a, nil, nil)
			u2, e2 := anyutil.Unpack(a, nil, concEmptyTypes)
			if e1 != nil || e2 != nil {
				return fmt.Sprint(e1, e2)
			}
			return fmt.Sprintf("%x %x", SpecEncode(quietF32(Canon(ReflToIR(u1.ProtoReflect())))), SpecEncode(quietF32(Canon(ReflToIR(u2.ProtoReflect())))))
		}},
		{"struct-read", func(m, _ proto.Message) string { return fmt.Sprintf("%x", SpecEncode(Canon(StructToIR(m)))) }},
	}
}

// the Any shared by the readers of the current round (written before the goroutines are released)
var concAny *anypb.Any
var concEmptyTypes = new(protoregistry.Types)

func engineConc(rep *Report) {
	subs := allSubjects()
	rounds := perType(6, 120)
	ops := concOps()
	deepDone := 0
	for ti, s := range subs {
		tn := string(s.FullName)
		rep.Types = append(rep.Types, tn)
		d := s.Zero.ProtoReflect().Descriptor()
		cycles := findCycles(d)
		nrounds := rounds
		if len(cycles) > 0 && mineCase(ti, rounds) && deepDone < perType(3, 12) {
			nrounds++ // one more round on a deeply nested shared message (a few types per process)
			deepDone++
		}
		for round := 0; round < nrounds; round++ {
			round := round
			deep := round == rounds
			if !mineCase(ti, round) {
				continue
			}
			guardCase(rep, "C11", "conc", tn, round, func() {
				G := 16
				if deep {
					G = 64
				}
				seed := caseSeed(*flagSeed, tn, round, "conc")
				o := defaultGen()
				o.NoSNaN = true
				o.LongValues = false
				o.PFill = 0.5
				if round%3 == 2 {
					o.PFill = 0.1 // mostly unset fields: reads of unpopulated composites
				}
				g := NewGen(seed, o)
				v := g.Msg(d, 0)
				v2 := g.Msg(d, 0)
				// construction route (never through the codec/reflection of the subject in round 0: first use is raced)
				var shared, other proto.Message
				route := round % 4
				switch {
				case round == 0 || route == 0:
					shared, other = BuildStruct(s.Zero, v), BuildStruct(s.Zero, v2)
				case route == 1:
					shared = newOf(s.Zero)
					_ = proto.Unmarshal(SpecEncode(v), shared)
					other = BuildStruct(s.Zero, v2)
				case route == 2:
					shared = newOf(s.Zero)
					Fill(fastView, shared, quietF32(v))
					other = BuildStruct(s.Zero, v2)
				default:
					shared = proto.Clone(BuildStruct(s.Zero, v))
					other = BuildStruct(s.Zero, v2)
				}
				if round%6 == 5 && !deep {
					// a shared message that holds nothing but unknown fields (buffer as the decoder leaves it)
					raw := protowire.AppendVarint(protowire.AppendTag(nil, 536870000, protowire.VarintType), uint64(round)+1)
					raw = protowire.AppendBytes(protowire.AppendTag(raw, 536870001, protowire.BytesType), []byte("nothing-but-unknown"))
					raw = protowire.AppendVarint(protowire.AppendTag(raw, 536870000, protowire.VarintType), 7)
					shared = newOf(s.Zero)
					if err := proto.Unmarshal(raw, shared); err != nil {
						return
					}
					rep.Count("C11", "unknown-only-shared-message-rounds", 1)
				}
				ops := ops
				if deep {
					// a shared message nested 400 levels deep (well inside every limit) read by 64 goroutines: all in-flight
					// calls together hold well over ten thousand nested frames
					shared = newOf(s.Zero)
					if err := proto.Unmarshal(nestChain(cycles[0], 400), shared); err != nil {
						return
					}
					other = newOf(s.Zero)
					var sel []concOp
					for _, o := range ops {
						switch o.name {
						case "Size", "Marshal(det)", "Equal", "Clone(from)":
							sel = append(sel, o)
						}
					}
					ops = sel
					rep.Count("C11", "deep-shared-message-rounds", 1)
				}
				if round%5 == 4 && !deep {
					// empty-but-allocated containers: a read path that "normalises" them writes to the struct
					nilToEmpty(reflect.ValueOf(shared), 0)
				}
				// view objects obtained once and shared by all readers (not in round 0: the first use of the type stays concurrent)
				var views []protoreflect.Value
				var viewFDs []FD
				if round > 0 && !deep {
					sr := shared.ProtoReflect()
					for i := 0; i < d.Fields().Len(); i++ {
						fd := d.Fields().Get(i)
						if fd.IsList() || fd.IsMap() {
							views = append(views, sr.Get(fd))
							viewFDs = append(viewFDs, fd)
						}
					}
				}
				viewOp := func() string {
					out := ""
					for i, vv := range views {
						out += digestValue(viewFDs[i], vv) + ";"
						if viewFDs[i].IsMap() {
							vv.Map().Range(func(k protoreflect.MapKey, _ protoreflect.Value) bool { _ = vv.Map().Has(k); return true })
							out += fmt.Sprint(vv.Map().Len(), vv.Map().IsValid())
						} else {
							out += fmt.Sprint(vv.List().Len(), vv.List().IsValid())
						}
					}
					return out
				}
				// (the packed value first carries every singular bytes field once as present-but-empty: a decoder that
				// keeps a slice of its input for it writes into the shared Any when the field occurs again)
				var pre []byte
				for fi := 0; fi < d.Fields().Len(); fi++ {
					if fd := d.Fields().Get(fi); fd.Kind() == protoreflect.BytesKind && fd.Cardinality() != protoreflect.Repeated && fd.ContainingOneof() == nil {
						pre = append(protowire.AppendTag(pre, fd.Number(), protowire.BytesType), 0)
					}
				}
				concAny = &anypb.Any{TypeUrl: "/" + tn, Value: append(pre, SpecEncode(v)...)}
				if deep {
					concAny = nil
				}
				viewRes := make([]string, G)
				results := make([][]string, G)
				panics := make([]string, G)
				var start, done sync.WaitGroup
				start.Add(1)
				for gi := 0; gi < G; gi++ {
					done.Add(1)
					gi := gi
					go func() {
						defer done.Done()
						r := rand.New(rand.NewSource(seed + int64(gi)*7919))
						perm := r.Perm(len(ops))
						res := make([]string, len(ops))
						start.Wait() // barrier: all readers are released together
						pan, pmsg := safely(func() {
							for k, oi := range perm {
								if k == len(perm)/2 {
									viewRes[gi] = viewOp()
								}
								res[oi] = ops[oi].f(shared, other)
							}
						})
						if pan {
							panics[gi] = pmsg
						}
						results[gi] = res
					}()
				}
				start.Done()
				done.Wait()
				// sequential result (after the concurrent phase)
				seq := make([]string, len(ops))
				for oi := range ops {
					seq[oi] = ops[oi].f(shared, other)
				}
				rc := replayCase{Engine: "conc", Type: tn, Seed: *flagSeed, Index: round, Value: hx(SpecEncode(v))}
				rep.Eval("C11", []byte(fmt.Sprintf("%s|%d|%x", tn, round, SpecEncode(v))), true)
				rep.Count("C11", "goroutines", int64(G))
				rep.Count("C11", "concurrent-op-executions", int64(G*len(ops)))
				if round == 0 && len(rep.P("C11").Samples) < 3 {
					names := []string{}
					for _, o := range ops {
						names = append(names, o.name)
					}
					rep.Sample("C11", map[string]interface{}{"type": tn, "goroutines": G, "ops_each_in_seeded_permutation": names, "shared_message_hex": hx(SpecEncode(v))})
				}
				seqView := viewOp()
				for gi := 0; gi < G; gi++ {
					if panics[gi] == "" && viewRes[gi] != seqView {
						rep.Violate("C11", "conc/result-differs-from-sequential/shared-views", tn, fmt.Sprintf("goroutine %d reading shared list/map views got %s, sequential reader %s", gi, trunc(viewRes[gi]), trunc(seqView)), rc)
						break
					}
				}
				for gi := 0; gi < G; gi++ {
					if panics[gi] != "" {
						rep.Violate("C11", "conc/reader-panics", tn, panics[gi], rc)
						break
					}
					for oi := range ops {
						if results[gi][oi] != seq[oi] {
							rep.Violate("C11", "conc/result-differs-from-sequential/"+ops[oi].name, tn, fmt.Sprintf("goroutine %d: %s gave %s, sequential reader %s", gi, ops[oi].name, trunc(results[gi][oi]), trunc(seq[oi])), rc)
							break
						}
					}
				}
			})
		}
	}
	_ = glue.All
	_ = protoreflect.Name("")
}
