package main

// Engine "anyu": C16 - anyutil packs and unpacks every message faithfully and never panics.

import (
	"bytes"
	"fmt"
	"math/rand"
	"reflect"

	legacyany "github.com/cosmos/cosmos-proto/any"
	"github.com/cosmos/cosmos-proto/anyutil"
	"github.com/cosmos/cosmos-proto/zzverif/glue"
	"google.golang.org/protobuf/encoding/protowire"
	"google.golang.org/protobuf/proto"
	"google.golang.org/protobuf/reflect/protodesc"
	"google.golang.org/protobuf/reflect/protoreflect"
	"google.golang.org/protobuf/reflect/protoregistry"
	"google.golang.org/protobuf/types/descriptorpb"
	"google.golang.org/protobuf/types/dynamicpb"
	"google.golang.org/protobuf/types/known/anypb"
	"google.golang.org/protobuf/types/known/durationpb"
	"google.golang.org/protobuf/types/known/fieldmaskpb"
	"google.golang.org/protobuf/types/known/structpb"
	"google.golang.org/protobuf/types/known/timestamppb"
	"google.golang.org/protobuf/types/known/wrapperspb"
)

func init() { engines["anyu"] = engineAnyu }

// a files registry holding exactly one file (plus dependencies)
func filesWith(fd protoreflect.FileDescriptor) *protoregistry.Files {
	fs := new(protoregistry.Files)
	var add func(f protoreflect.FileDescriptor)
	add = func(f protoreflect.FileDescriptor) {
		if _, err := fs.FindFileByPath(f.Path()); err == nil {
			return
		}
		imps := f.Imports()
		for i := 0; i < imps.Len(); i++ {
			add(imps.Get(i).FileDescriptor)
		}
		_ = fs.RegisterFile(f)
	}
	add(fd)
	return fs
}

func canonOf(m proto.Message) []byte {
	if isSubject(m) {
		return SpecEncode(quietF32(Canon(StructToIR(m))))
	}
	return SpecEncode(quietF32(Canon(ReflToIR(m.ProtoReflect()))))
}

func engineAnyu(rep *Report) {
	subs := allSubjects()
	n := perType(12, 600)
	si, _ := shard()
	emptyTypes := new(protoregistry.Types)
	for ti, s := range subs {
		tn := string(s.FullName)
		rep.Types = append(rep.Types, tn)
		d := s.Zero.ProtoReflect().Descriptor()
		for i := 0; i < n; i++ {
			i := i
			if !mineCase(ti, i) {
				continue
			}
			guardCase(rep, "C16", "anyu", tn, i, func() {
				seed := caseSeed(*flagSeed, tn, i, "anyu")
				o := defaultGen()
				o.NoSNaN = true
				g := NewGen(seed, o)
				r := rand.New(rand.NewSource(seed))
				v := g.Msg(d, 0)
				m := BuildStruct(s.Zero, v)
				want := SpecEncode(Canon(v))
				if i%4 == 1 && !hasRequiredBelow(d) {
					// hand-built state: nil pointers as list elements / map values (they are packed as empty messages)
					if nilOutMessages(reflect.ValueOf(m), r, 0) > 0 {
						v = Canon(StructToIR(m))
						want = SpecEncode(v)
						rep.Count("C16", "packed-messages-with-nil-elements", 1)
					}
				}
				rc := replayCase{Engine: "anyu", Type: tn, Seed: *flagSeed, Index: i, Value: hx(want)}
				rep.Eval("C16", append([]byte(tn), want...), true)
				if i == 0 && si == 0 {
					rep.Sample("C16", map[string]string{"type": tn, "value_hex": hx(want)})
				}
				// ---- pack
				var a *anypb.Any
				var err error
				usePack := i % 3
				pan, pmsg := safely(func() {
					switch usePack {
					case 0:
						a, err = anyutil.New(m)
					case 1:
						a = &anypb.Any{TypeUrl: "sentinel", Value: []byte("sentinel")}
						err = anyutil.MarshalFrom(a, m, proto.MarshalOptions{Deterministic: true})
					case 2:
						a, err = legacyany.New(m)
					}
				})
				if pan || err != nil {
					rep.Violate("C16", "anyu/pack-fails", tn, fmt.Sprintf("packing a valid message: err=%v %s", err, pmsg), rc)
					return
				}
				if a.TypeUrl != "/"+tn {
					rep.Violate("C16", "anyu/type-url", tn, fmt.Sprintf("type URL %q, want %q", a.TypeUrl, "/"+tn), rc)
				}
				// value is m's encoding under the given options
				if usePack == 1 {
					if !bytes.Equal(a.Value, want) {
						rep.Violate("C16", "anyu/value", tn, "MarshalFrom(Deterministic) value differs from the deterministic encoding: "+firstDiff(a.Value, want), rc)
					}
				} else if dec, e := SpecDecode(d, a.Value, SpecOpts{}); e != nil || !bytes.Equal(SpecEncode(Canon(dec)), want) {
					rep.Violate("C16", "anyu/value", tn, "packed value is not an encoding of the message", rc)
				}
				// ---- unpack through the type registry
				var u1, u2, u3 proto.Message
				var e1, e2, e3 error
				pan, pmsg = safely(func() { u1, e1 = anyutil.Unpack(a, nil, nil) })
				if pan || e1 != nil {
					rep.Violate("C16", "anyu/unpack-registry-fails", tn, fmt.Sprintf("err=%v %s", e1, pmsg), rc)
				} else if !u1.ProtoReflect().IsValid() || !proto.Equal(u1, m) {
					rep.Violate("C16", "anyu/unpack-registry-differs", tn, fmt.Sprintf("unpacked message is valid=%v, Equal to the packed one=%v", u1.ProtoReflect().IsValid(), proto.Equal(u1, m)), rc)
				} else if !bytes.Equal(canonOf(u1), want) {
					rep.Violate("C16", "anyu/unpack-registry-differs", tn, "unpacked message differs: "+firstDiff(canonOf(u1), want), rc)
				} else if u1.ProtoReflect().Descriptor().FullName() != d.FullName() {
					rep.Violate("C16", "anyu/unpack-registry-type", tn, "wrong type", rc)
				}
				// ---- unpack through the file registry (type registry without the type)
				pan, pmsg = safely(func() { u2, e2 = anyutil.Unpack(a, nil, emptyTypes) })
				if pan || e2 != nil {
					rep.Violate("C16", "anyu/unpack-files-fails", tn, fmt.Sprintf("err=%v %s", e2, pmsg), rc)
				} else {
					if _, ok := u2.(*dynamicpb.Message); !ok {
						rep.Violate("C16", "anyu/unpack-files-not-dynamic", tn, fmt.Sprintf("got %T", u2), rc)
					}
					if !u2.ProtoReflect().IsValid() {
						rep.Violate("C16", "anyu/unpack-files-differs", tn, "the unpacked dynamic message is an invalid (read-only) message", rc)
					}
					if !bytes.Equal(canonOf(u2), want) {
						rep.Violate("C16", "anyu/unpack-files-differs", tn, "file-registry path differs from the message: "+firstDiff(canonOf(u2), want), rc)
					}
				}
				// custom files registry with the file
				pan, pmsg = safely(func() { u3, e3 = anyutil.Unpack(a, filesWith(d.ParentFile()), emptyTypes) })
				if pan || e3 != nil {
					rep.Violate("C16", "anyu/unpack-customfiles-fails", tn, fmt.Sprintf("err=%v %s", e3, pmsg), rc)
				} else if !bytes.Equal(canonOf(u3), want) {
					rep.Violate("C16", "anyu/unpack-customfiles-differs", tn, "custom file registry path differs", rc)
				}
				rep.Count("C16", "pack-unpack-roundtrips", 1)

				// ---- hostile Any values / resolver combinations: error, never panic
				hostile := []*anypb.Any{
					{TypeUrl: "", Value: a.Value},
					{TypeUrl: "/", Value: a.Value},
					{TypeUrl: tn, Value: a.Value},                          // no slash
					{TypeUrl: "type.googleapis.com/" + tn, Value: a.Value}, // host prefix: resolvable through the type registry
					{TypeUrl: "/" + tn + ".nope", Value: a.Value},
					{TypeUrl: "/no.such.Type", Value: a.Value},
					{TypeUrl: "/" + tn, Value: append(append([]byte{}, a.Value...), 0xff)}, // corrupt tail
					{TypeUrl: "/" + tn, Value: []byte{0x0a, 0xff, 0xff, 0xff, 0xff, 0x0f}},
					{TypeUrl: "/" + tn, Value: []byte{0xc0, 0x3e, 0x80}},                   // unknown varint field, value truncated
					{TypeUrl: "/" + tn, Value: []byte{0xc1, 0x3e, 1, 2, 3}},                // unknown fixed64 truncated
					{TypeUrl: "/" + tn, Value: []byte{0xc2, 0x3e, 0x05, 1}},                // unknown bytes truncated
					{TypeUrl: "/" + tn, Value: []byte{0xc3, 0x3e, 0xc2, 0x3e, 0x7f}},       // unknown group, unterminated
					{TypeUrl: "/" + tn, Value: []byte{0xc5, 0x3e, 1}},                      // unknown fixed32 truncated
					{TypeUrl: "/" + tn, Value: append(append([]byte{}, a.Value...), 0x80)}, // dangling tag byte
					{TypeUrl: "//" + tn, Value: a.Value},
					{TypeUrl: "/\x00\xff", Value: nil},
					{TypeUrl: "/google.protobuf.Any", Value: a.Value},
				}
				// names of non-message descriptors: enums, services, fields, enum values, oneofs
				f := d.ParentFile()
				if f.Enums().Len() > 0 {
					hostile = append(hostile, &anypb.Any{TypeUrl: "/" + string(f.Enums().Get(0).FullName()), Value: a.Value})
					hostile = append(hostile, &anypb.Any{TypeUrl: "/" + string(f.Enums().Get(0).Values().Get(0).FullName()), Value: nil})
				}
				if f.Services().Len() > 0 {
					hostile = append(hostile, &anypb.Any{TypeUrl: "/" + string(f.Services().Get(0).FullName()), Value: a.Value})
					hostile = append(hostile, &anypb.Any{TypeUrl: "/" + string(f.Services().Get(0).Methods().Get(0).FullName()), Value: a.Value})
				}
				if d.Fields().Len() > 0 {
					hostile = append(hostile, &anypb.Any{TypeUrl: "/" + string(d.Fields().Get(0).FullName()), Value: a.Value})
				}
				if d.Oneofs().Len() > 0 {
					hostile = append(hostile, &anypb.Any{TypeUrl: "/" + string(d.Oneofs().Get(0).FullName()), Value: a.Value})
				}
				if f.Extensions().Len() > 0 {
					hostile = append(hostile, &anypb.Any{TypeUrl: "/" + string(f.Extensions().Get(0).FullName()), Value: a.Value})
				}
				if d.Enums().Len() > 0 {
					hostile = append(hostile, &anypb.Any{TypeUrl: "/" + string(d.Enums().Get(0).Values().Get(0).FullName()), Value: a.Value})
				}
				hostile = append(hostile, &anypb.Any{TypeUrl: "/google.protobuf.FieldDescriptorProto.name", Value: a.Value}, &anypb.Any{TypeUrl: "/google.protobuf.NULL_VALUE", Value: a.Value})
				hostile = append(hostile, &anypb.Any{TypeUrl: "/google.protobuf.NullValue", Value: nil}, &anypb.Any{TypeUrl: "/google.protobuf.FieldDescriptorProto.Type", Value: []byte{1}})
				type resolvers struct {
					name string
					f    protodesc.Resolver
					t    protoregistry.MessageTypeResolver
				}
				rs := []resolvers{
					{"default", nil, nil},
					{"empty-types", nil, emptyTypes},
					{"custom-files+empty-types", filesWith(f), emptyTypes},
					{"empty-files+empty-types", new(protoregistry.Files), emptyTypes},
				}
				h := hostile[r.Intn(len(hostile))]
				if i < len(hostile) {
					h = hostile[i]
				}
				// ---- corrupt values: a value whose record framing is broken (see framingCorrupt: truncated, field number
				// 0, wire types 6/7, stray or missing end-group) must be reported as an error on both paths; what both
				// paths accept must be the same message.  Values on which parsers legitimately differ in strictness
				// (mismatched end-group numbers, varints overflowing 64 bits, invalid UTF-8, a known field arriving with
				// another wire type) are not judged.
				if i < perType(4, 60) {
					base := want // (the packed value itself may order map entries differently from run to run)
					corrupt := [][]byte{
						append(append([]byte{}, base...), 0xff),
						{0x0a, 0xff, 0xff, 0xff, 0xff, 0x0f},
						{0xc0, 0x3e, 0x80}, {0xc1, 0x3e, 1, 2, 3}, {0xc2, 0x3e, 0x05, 1}, {0xc3, 0x3e, 0xc2, 0x3e, 0x7f}, {0xc5, 0x3e, 1},
						append(append([]byte{}, base...), 0x80),
						{0x00}, {0x00, 0x00}, {0x07}, {0xc7, 0x3e}, {0xc6, 0x3e, 0x00}, // field number 0, wire types 7 and 6
						{0xc4, 0x3e},             // stray end-group
						{0xc3, 0x3e, 0xcc, 0x3e}, // group closed by another field's end-group
						{0xc2, 0x3e, 0xff, 0xff, 0xff, 0xff, 0xff, 0xff, 0xff, 0xff, 0x7f},       // length near 2^63
						{0xc0, 0x3e, 0x80, 0x80, 0x80, 0x80, 0x80, 0x80, 0x80, 0x80, 0x80, 0x01}, // 11-byte varint
						{0x80, 0x80, 0x80, 0x80, 0x80, 0x80, 0x80, 0x80, 0x80, 0x80, 0x01},       // over-long tag
					}
					for k := 0; k < 10 && len(base) > 0; k++ { // seeded damage to the valid value: cut, flip, insert, delete
						b := append([]byte{}, base...)
						switch r.Intn(4) {
						case 0:
							b = b[:r.Intn(len(b))]
						case 1:
							b[r.Intn(len(b))] ^= byte(1 << uint(r.Intn(8)))
						case 2:
							p := r.Intn(len(b) + 1)
							b = append(b[:p], append([]byte{byte(r.Intn(256))}, b[p:]...)...)
						default:
							p := r.Intn(len(b))
							b = append(b[:p], b[p+1:]...)
						}
						corrupt = append(corrupt, b)
					}
					// legal but non-canonical encodings of varint fields (values above one byte for bools, padded varints)
					nvar := 0
					for fi := 0; fi < d.Fields().Len() && nvar < 3; fi++ {
						fd := d.Fields().Get(fi)
						if fd.IsList() || fd.IsMap() || wireTypeOfKind(fd.Kind()) != protowire.VarintType {
							continue
						}
						nvar++
						tag := protowire.AppendTag(nil, fd.Number(), protowire.VarintType)
						corrupt = append(corrupt, append(append([]byte{}, tag...), 0x80, 0x01), append(append([]byte{}, tag...), 0x81, 0x80, 0x00),
							append(append(append([]byte{}, tag...), 0x80, 0x01), base...))
					}
					// a map entry whose key field occurs twice, the second time with another wire type
					for fi := 0; fi < d.Fields().Len(); fi++ {
						if fd := d.Fields().Get(fi); fd.IsMap() {
							var ent []byte
							switch wireTypeOfKind(fd.MapKey().Kind()) {
							case protowire.VarintType:
								ent = []byte{0x08, 0x01, 0x0d, 0, 0, 0, 0}
							case protowire.BytesType:
								ent = []byte{0x0a, 0x01, 'k', 0x08, 0x01}
							default:
								ent = append(protowire.AppendTag(nil, 1, wireTypeOfKind(fd.MapKey().Kind())), make([]byte, 8)...)
								if wireTypeOfKind(fd.MapKey().Kind()) == protowire.Fixed32Type {
									ent = ent[:5]
								}
								ent = append(ent, 0x08, 0x01)
							}
							corrupt = append(corrupt, protowire.AppendBytes(protowire.AppendTag(nil, fd.Number(), protowire.BytesType), ent))
							break
						}
					}
					for _, cv := range corrupt {
						refMsg := dynamicpb.NewMessage(d)
						var refErr error
						if rpan, _ := safely(func() { refErr = proto.Unmarshal(cv, refMsg) }); rpan {
							rep.Count("C16", "corrupt-values-on-which-the-reference-parser-panics", 1)
							refErr = fmt.Errorf("reference parser panics")
						}
						h := &anypb.Any{TypeUrl: "/" + tn, Value: cv}
						var m1, m2 proto.Message
						var e1, e2 error
						rcc := map[string]interface{}{"engine": "anyu", "type": tn, "index": i, "seed": *flagSeed, "corrupt_value_hex": hx(cv)}
						pan1, pmsg1 := safely(func() { m1, e1 = anyutil.Unpack(h, nil, nil) })
						pan2, pmsg2 := safely(func() { m2, e2 = anyutil.Unpack(h, nil, emptyTypes) })
						rep.Eval("C16", []byte("corrupt|"+tn+"|"+string(cv)), true)
						rep.Count("C16", "corrupt-value-unpacks", 2)
						if pan1 {
							rep.Violate("C16", "anyu/unpack-panics", tn, fmt.Sprintf("Unpack (type-registry path) panics on the value %s: %s", hx(cv), pmsg1), rcc)
						}
						if pan2 {
							rep.Violate("C16", "anyu/unpack-panics", tn, fmt.Sprintf("Unpack (file-registry path, dynamic message) panics on the value %s: %s", hx(cv), pmsg2), rcc)
						}
						if pan1 || pan2 {
							continue
						}
						why, undecided := framingCorrupt(d, cv, 0)
						if undecided {
							rep.Count("C16", "corrupt-values-not-judged(strictness-differs)", 1)
							continue
						}
						if why != "" {
							rep.Count("C16", "corrupt-values-with-broken-framing", 1)
							if refErr == nil {
								rep.Inconclusive("C16", "framing-oracle-stricter-than-reference")
								continue
							}
							if e1 == nil {
								rep.Violate("C16", "anyu/corrupt-value-accepted", tn, fmt.Sprintf("value %x is corrupt (%s; reference parser: %v) but Unpack through the type registry returns a message", cv, why, refErr), rcc)
							}
							if e2 == nil {
								rep.Violate("C16", "anyu/corrupt-value-accepted", tn, fmt.Sprintf("value %x is corrupt (%s; reference parser: %v) but Unpack through the file registry returns a message", cv, why, refErr), rcc)
							}
							continue
						}
						if refErr != nil {
							rep.Count("C16", "values-rejected-by-reference-only-on-strictness", 1)
							continue
						}
						if e1 != nil {
							// framing intact, nothing a strict and a lenient parser differ on, the reference accepts it
							rep.Violate("C16", "anyu/valid-value-rejected", tn, fmt.Sprintf("the value %s is a valid encoding (the reference parser and the file-registry path accept it) but Unpack through the type registry fails: %v", hx(cv), e1), rcc)
							continue
						}
						if e1 == nil && e2 == nil && !bytes.Equal(canonOf(m1), canonOf(m2)) {
							rep.Violate("C16", "anyu/paths-disagree", tn, fmt.Sprintf("type-registry and file-registry paths return different messages (%s) for the value %s", firstDiff(canonOf(m1), canonOf(m2)), hx(cv)), rcc)
						}
					}
				}
				hs := []*anypb.Any{h}
				if i == 0 {
					hs = hostile // the whole list once per type, whatever the number of cases of the tier
				}
				for _, h := range hs {
					for _, rv := range rs {
						var um proto.Message
						var ue error
						pan, pmsg = safely(func() { um, ue = anyutil.Unpack(h, rv.f, rv.t) })
						rep.Count("C16", "hostile-unpacks", 1)
						rep.Eval("C16", []byte("hostile|"+rv.name+"|"+h.TypeUrl+"|"+string(h.Value)), true)
						if pan {
							rep.Violate("C16", "anyu/unpack-panics", tn, fmt.Sprintf("Unpack(url=%q, resolvers=%s) panics: %s", h.TypeUrl, rv.name, pmsg), map[string]interface{}{"engine": "anyu", "type": tn, "index": i, "seed": *flagSeed, "url": h.TypeUrl, "resolvers": rv.name})
						} else if ue == nil && um == nil {
							rep.Violate("C16", "anyu/unpack-nil-nil", tn, fmt.Sprintf("Unpack(url=%q, %s) returned neither message nor error", h.TypeUrl, rv.name), rc)
						}
					}
				}
			})
		}
	}
	if si == 0 {
		guardCase(rep, "C16", "anyu", "failed-pack", 0, func() { anyuFailedPack(rep) })
		guardCase(rep, "C16", "anyu", "well-known-types", 0, func() { anyuWKT(rep) })
		guardCase(rep, "C16", "anyu", "self-pack", 0, func() { anyuSelfPack(rep) })
		guardCase(rep, "C16", "anyu", "same-name-two-registries", 0, func() { anyuSameNameTwoRegistries(rep) })
		guardCase(rep, "C16", "anyu", "deep-nesting", 0, func() { anyuDeep(rep) })
	}
}

// a failed pack leaves the destination untouched
func anyuFailedPack(rep *Report) {
	check := func(name string, src proto.Message) {
		val := make([]byte, 3, 64) // spare capacity: a pack that reuses the buffer would scribble over it
		copy(val, []byte{1, 2, 3})
		spare := val[:64]
		for i := 3; i < 64; i++ {
			spare[i] = 0x5a
		}
		dst := &anypb.Any{TypeUrl: "keep/me", Value: val}
		var err error
		pan, pmsg := safely(func() { err = anyutil.MarshalFrom(dst, src, proto.MarshalOptions{}) })
		rep.Eval("C16", []byte("failed-pack|"+name), true)
		rep.Count("C16", "failed-pack-cases", 1)
		if pan {
			rep.Violate("C16", "anyu/failed-pack-panics", name, pmsg, nil)
			return
		}
		if err == nil {
			rep.Inconclusive("C16", "expected-marshal-failure-did-not-fail/"+name)
			return
		}
		if dst.TypeUrl != "keep/me" || !bytes.Equal(dst.Value, []byte{1, 2, 3}) || !bytes.Equal(spare[3:], bytes.Repeat([]byte{0x5a}, 61)) {
			rep.Violate("C16", "anyu/failed-pack-modifies-dst", name, fmt.Sprintf("after a failed MarshalFrom dst = {%q, %x}", dst.TypeUrl, dst.Value), nil)
		}
		var a *anypb.Any
		pan, pmsg = safely(func() { a, err = anyutil.New(src) })
		if pan {
			rep.Violate("C16", "anyu/failed-pack-panics", name, pmsg, nil)
		} else if err == nil || a != nil {
			rep.Violate("C16", "anyu/new-returns-any-on-error", name, "New returned a value although marshalling failed", nil)
		}
	}
	check("nil-source", nil)
	check("fails-part-way", &fieldmaskpb.FieldMask{Paths: []string{"abcdefgh", "\xff"}})
	check("invalid-utf8-wrapper", &wrapperspb.StringValue{Value: "\xff\xfe"})
	check("invalid-utf8-in-struct", &structpb.Struct{Fields: map[string]*structpb.Value{"k": structpb.NewStringValue("\xc3\x28")}})
	// a generated message whose nested well-known-type field cannot be marshalled
	for _, s := range glue.All() {
		d := s.Zero.ProtoReflect().Descriptor()
		fs := d.Fields()
		for i := 0; i < fs.Len(); i++ {
			fd := fs.Get(i)
			if fd.Kind() == protoreflect.MessageKind && !fd.IsList() && !fd.IsMap() && fd.Message().FullName() == "google.protobuf.StringValue" && fd.ContainingOneof() == nil {
				m := newOf(s.Zero)
				m.ProtoReflect().Set(fd, protoreflect.ValueOfMessage((&wrapperspb.StringValue{Value: "\xff"}).ProtoReflect()))
				check("generated-parent-of-invalid-utf8:"+string(s.FullName), m)
				return
			}
		}
	}
}

// well-known types as payload
func anyuWKT(rep *Report) {
	for _, m := range []proto.Message{
		&timestamppb.Timestamp{Seconds: 1700000000, Nanos: 5}, durationpb.New(12345), wrapperspb.Int64(-5), structpb.NewBoolValue(true),
		&anypb.Any{TypeUrl: "/x", Value: []byte("y")},
	} {
		a, err := anyutil.New(m)
		name := string(m.ProtoReflect().Descriptor().FullName())
		rep.Eval("C16", []byte("wkt|"+name), true)
		if err != nil || a.TypeUrl != "/"+name {
			rep.Violate("C16", "anyu/type-url", name, fmt.Sprintf("err=%v url=%q", err, a.GetTypeUrl()), nil)
			continue
		}
		u, err := anyutil.Unpack(a, nil, nil)
		if err != nil || !proto.Equal(u, m) {
			rep.Violate("C16", "anyu/unpack-registry-differs", name, fmt.Sprintf("err=%v", err), nil)
		}
		u2, err := anyutil.Unpack(a, nil, new(protoregistry.Types))
		if err != nil || !bytes.Equal(canonOf(u2), canonOf(m)) {
			rep.Violate("C16", "anyu/unpack-files-differs", name, fmt.Sprintf("err=%v", err), nil)
		}
	}
}

// packing an Any into itself / from a source sharing the destination's bytes
func anyuSelfPack(rep *Report) {
	inner := &wrapperspb.BytesValue{Value: bytes.Repeat([]byte{7}, 40)}
	a, err := anyutil.New(inner)
	if err != nil {
		rep.Violate("C16", "anyu/pack-fails", "self-pack", err.Error(), nil)
		return
	}
	// shrink: pack something small into the same destination so that Value keeps spare capacity
	if err := anyutil.MarshalFrom(a, &wrapperspb.BytesValue{Value: []byte{1}}, proto.MarshalOptions{}); err != nil {
		rep.Violate("C16", "anyu/pack-fails", "self-pack", err.Error(), nil)
		return
	}
	wantVal, _ := proto.MarshalOptions{Deterministic: true}.Marshal(a) // encoding of a as it is now
	pan, pmsg := safely(func() { err = anyutil.MarshalFrom(a, a, proto.MarshalOptions{Deterministic: true}) })
	rep.Eval("C16", []byte("self-pack"), true)
	if pan || err != nil {
		rep.Violate("C16", "anyu/self-pack-fails", "google.protobuf.Any", fmt.Sprintf("err=%v %s", err, pmsg), nil)
		return
	}
	if a.TypeUrl != "/google.protobuf.Any" || !bytes.Equal(a.Value, wantVal) {
		rep.Violate("C16", "anyu/value", "google.protobuf.Any", fmt.Sprintf("packing an Any into itself: value %x, want the encoding of the source %x", a.Value, wantVal), nil)
	}
	// a source that wraps the destination's own value bytes
	b, _ := anyutil.New(&wrapperspb.BytesValue{Value: bytes.Repeat([]byte{9}, 50)})
	_ = anyutil.MarshalFrom(b, &wrapperspb.BytesValue{Value: []byte{1, 2, 3, 4, 5, 6}}, proto.MarshalOptions{})
	src := &wrapperspb.BytesValue{Value: b.Value}
	want2, _ := proto.MarshalOptions{Deterministic: true}.Marshal(src)
	pan, pmsg = safely(func() { err = anyutil.MarshalFrom(b, src, proto.MarshalOptions{Deterministic: true}) })
	rep.Eval("C16", []byte("aliasing-source"), true)
	if pan || err != nil {
		rep.Violate("C16", "anyu/self-pack-fails", "google.protobuf.BytesValue", fmt.Sprintf("err=%v %s", err, pmsg), nil)
	} else if !bytes.Equal(b.Value, want2) {
		rep.Violate("C16", "anyu/value", "google.protobuf.BytesValue", fmt.Sprintf("source sharing the destination's bytes: value %x, want %x", b.Value, want2), nil)
	}
}

// two custom file registries declaring the same full name with different fields
func anyuSameNameTwoRegistries(rep *Report) {
	mk := func(withB bool) *protoregistry.Files {
		m := &descriptorpb.DescriptorProto{Name: proto.String("X"), Field: []*descriptorpb.FieldDescriptorProto{
			{Name: proto.String("a"), Number: proto.Int32(1), Type: descriptorpb.FieldDescriptorProto_TYPE_INT32.Enum(), Label: descriptorpb.FieldDescriptorProto_LABEL_OPTIONAL.Enum()}}}
		if withB {
			m.Field = append(m.Field, &descriptorpb.FieldDescriptorProto{Name: proto.String("b"), Number: proto.Int32(2), Type: descriptorpb.FieldDescriptorProto_TYPE_STRING.Enum(), Label: descriptorpb.FieldDescriptorProto_LABEL_OPTIONAL.Enum()})
		}
		fd, err := protodesc.NewFile(&descriptorpb.FileDescriptorProto{Name: proto.String("vfdyn/x.proto"), Package: proto.String("vf.dyn"), Syntax: proto.String("proto3"), MessageType: []*descriptorpb.DescriptorProto{m}}, nil)
		if err != nil {
			panic(err)
		}
		fs := new(protoregistry.Files)
		_ = fs.RegisterFile(fd)
		return fs
	}
	r1, r2 := mk(false), mk(true)
	val := []byte{0x08, 0x05, 0x12, 0x02, 'h', 'i'}
	a := &anypb.Any{TypeUrl: "/vf.dyn.X", Value: val}
	empty := new(protoregistry.Types)
	for round, fs := range []*protoregistry.Files{r1, r2, r1} {
		var m proto.Message
		var err error
		pan, pmsg := safely(func() { m, err = anyutil.Unpack(a, fs, empty) })
		rep.Eval("C16", []byte(fmt.Sprintf("same-name-two-registries|%d", round)), true)
		if pan || err != nil {
			rep.Violate("C16", "anyu/unpack-customfiles-fails", "vf.dyn.X", fmt.Sprintf("err=%v %s", err, pmsg), nil)
			continue
		}
		nf := m.ProtoReflect().Descriptor().Fields().Len()
		unk := len(m.ProtoReflect().GetUnknown())
		wantFields := 1
		if round == 1 {
			wantFields = 2
		}
		if nf != wantFields || (wantFields == 2 && unk != 0) || (wantFields == 1 && unk == 0) {
			rep.Violate("C16", "anyu/unpack-customfiles-differs", "vf.dyn.X", fmt.Sprintf("round %d: message built on a descriptor with %d fields (unknown bytes %d); the resolver passed in declares %d fields", round, nf, unk, wantFields), nil)
		}
	}
}

// anyuDeep: values nested beyond / within the reference's nesting limit, for types that recurse: the type-registry
// path and the file-registry (dynamicpb) path must give the same verdict.
func anyuDeep(rep *Report) {
	emptyTypes := new(protoregistry.Types)
	done := 0
	for _, s := range allSubjects() {
		d := s.Zero.ProtoReflect().Descriptor()
		cycles := findCycles(d)
		if len(cycles) == 0 {
			continue
		}
		tn := string(s.FullName)
		if done >= perType(8, 40) {
			break
		}
		done++
		for _, depth := range []int{3000, 9000, 10500, 12000, 25000} {
			in := nestChain(cycles[0], depth)
			a := &anypb.Any{TypeUrl: "/" + tn, Value: in}
			var e1, e2 error
			pan, pmsg := safely(func() {
				_, e1 = anyutil.Unpack(a, nil, nil)
				_, e2 = anyutil.Unpack(a, nil, emptyTypes)
			})
			rep.Eval("C16", []byte(fmt.Sprintf("deep|%s|%d", tn, depth)), true)
			rep.Count("C16", "deep-nesting-unpacks", 2)
			rc := map[string]interface{}{"engine": "anyu", "type": tn, "seed": *flagSeed, "depth": depth}
			if pan {
				rep.Violate("C16", "anyu/unpack-panics", tn, fmt.Sprintf("value nested %d deep: %s", depth, pmsg), rc)
			} else if (e1 == nil) != (e2 == nil) {
				rep.Violate("C16", "anyu/paths-disagree", tn, fmt.Sprintf("value nested %d levels deep: type-registry path err=%v, file-registry path err=%v", depth, e1, e2), rc)
			}
		}
	}
}

// framingCorrupt walks b as a sequence of wire records for message type d and returns a reason when the record
// framing itself is broken: input ends inside a tag, varint, fixed-width value, length-delimited payload or group;
// field number 0 where a message's own fields are read (not inside unknown groups or map entries, whose tags the
// skipper / entry reader only delimits); wire type 6 or 7; an end-group tag outside a group.  Payloads of known
// message fields and map entries arriving as length-delimited records are walked recursively.  The second result
// is true when the value exhibits something on which a lenient and a strict parser may differ (a known field with
// another wire type, varints longer than 10 bytes, out-of-range field numbers): then nothing is judged.
func framingCorrupt(d MD, b []byte, depth int) (string, bool) {
	if depth > 200 {
		return "", true
	}
	uvarint := func(b []byte) (uint64, int) { // lenient about overflow: up to 10 bytes, value bits beyond 64 ignored
		var v uint64
		for i := 0; i < len(b) && i < 10; i++ {
			if i < 9 {
				v |= uint64(b[i]&0x7f) << (7 * uint(i))
			} else {
				v |= uint64(b[i]&0x01) << 63
			}
			if b[i] < 0x80 {
				return v, i + 1
			}
		}
		if len(b) >= 10 {
			return 0, -2 // more than 10 bytes: strictness differs between parsers
		}
		return 0, -1 // truncated
	}
	var walk func(d MD, b []byte, inGroup bool, depth int) (int, string, bool)
	// returns (consumed, reason, undecided)
	walk = func(d MD, b []byte, inGroup bool, depth int) (int, string, bool) {
		i := 0
		for i < len(b) {
			tag, n := uvarint(b[i:])
			if n == -1 {
				return 0, "input ends inside a tag", false
			}
			if n == -2 || tag>>3 > uint64(protowire.MaxValidNumber) {
				return 0, "", true
			}
			i += n
			num, wt := protowire.Number(tag>>3), tag&7
			if num == 0 {
				if d == nil || d.IsMapEntry() {
					// tags inside unknown groups and map entries are not validated by the skipper / entry reader
					// (only delimited): strictness, not framing
					return 0, "", true
				}
				return 0, "field number 0", false
			}
			if d != nil {
				if fd := d.Fields().ByNumber(num); fd != nil {
					// a known field arriving with another wire type: the reference keeps it as an unknown field, the
					// generated decoder rejects it (or, inside a map entry, reads it as declared): not judged
					want := uint64(wireTypeOfKind(fd.Kind()))
					if wt != want && !(wt == 2 && fd.IsList() && want != 2) {
						return 0, "", true
					}
				}
			}
			switch wt {
			case 0:
				_, n := uvarint(b[i:])
				if n == -1 {
					return 0, "input ends inside a varint", false
				}
				if n == -2 {
					return 0, "", true
				}
				i += n
			case 1:
				if len(b)-i < 8 {
					return 0, "input ends inside a fixed64 value", false
				}
				i += 8
			case 5:
				if len(b)-i < 4 {
					return 0, "input ends inside a fixed32 value", false
				}
				i += 4
			case 2:
				l, n := uvarint(b[i:])
				if n == -1 {
					return 0, "input ends inside a length", false
				}
				if n == -2 {
					return 0, "", true
				}
				i += n
				if l > uint64(len(b)-i) {
					return 0, "length-delimited payload runs past the end of the input", false
				}
				payload := b[i : i+int(l)]
				i += int(l)
				if d != nil && depth < 200 {
					if fd := d.Fields().ByNumber(num); fd != nil && fd.Kind() == protoreflect.MessageKind {
						// a message field or a map entry: its payload is a message again
						_, why, und := walk(fd.Message(), payload, false, depth+1)
						if und {
							return 0, "", true
						}
						if why != "" {
							return 0, "in field " + string(fd.Name()) + ": " + why, false
						}
					}
				}
			case 3:
				n, why, und := walk(nil, b[i:], true, depth+1)
				if und || why != "" {
					return 0, why, und
				}
				i += n
			case 4:
				if !inGroup {
					return 0, "end-group tag outside a group", false
				}
				return i, "", false
			default:
				return 0, fmt.Sprintf("wire type %d", wt), false
			}
		}
		if inGroup {
			return 0, "input ends inside a group", false
		}
		return i, "", false
	}
	_, why, und := walk(d, b, false, depth)
	return why, und
}

func wireTypeOfKind(k protoreflect.Kind) protowire.Type {
	switch k {
	case protoreflect.Fixed64Kind, protoreflect.Sfixed64Kind, protoreflect.DoubleKind:
		return protowire.Fixed64Type
	case protoreflect.Fixed32Kind, protoreflect.Sfixed32Kind, protoreflect.FloatKind:
		return protowire.Fixed32Type
	case protoreflect.StringKind, protoreflect.BytesKind, protoreflect.MessageKind:
		return protowire.BytesType
	case protoreflect.GroupKind:
		return protowire.StartGroupType
	}
	return protowire.VarintType
}
