package main

// Engine "rt": C15 - runtime varint helpers agree with protowire.

import (
	"bytes"
	"encoding/hex"
	"fmt"
	"math/rand"
	goruntime "runtime"
	"sync"

	"github.com/cosmos/cosmos-proto/runtime"
	"google.golang.org/protobuf/encoding/protowire"
)

func init() { engines["rt"] = engineRT }

func rtCheckSizes(rep *Report, v uint64) bool {
	ok := true
	if a, b := runtime.Sov(v), protowire.SizeVarint(v); a != b {
		rep.Violate("C15", "rt/sov", "runtime", fmt.Sprintf("Sov(%#x)=%d, protowire.SizeVarint=%d", v, a, b), map[string]interface{}{"engine": "rt", "fn": "Sov", "v": v})
		ok = false
	}
	if a, b := runtime.Soz(v), protowire.SizeVarint(protowire.EncodeZigZag(int64(v))); a != b {
		rep.Violate("C15", "rt/soz", "runtime", fmt.Sprintf("Soz(%#x)=%d, SizeVarint(EncodeZigZag)=%d", v, a, b), map[string]interface{}{"engine": "rt", "fn": "Soz", "v": v})
		ok = false
	}
	return ok
}

var canaryBuf [48]byte

func rtCheckEncode(rep *Report, v uint64, offset int) bool {
	buf := canaryBuf[:]
	for i := range buf {
		buf[i] = 0xA5
	}
	want := protowire.AppendVarint(nil, v)
	var base int
	pan, pmsg := safely(func() { base = runtime.EncodeVarint(buf, offset, v) })
	if pan {
		rep.Violate("C15", "rt/encodevarint-panic", "runtime", fmt.Sprintf("EncodeVarint(buf[48], %d, %#x): %s", offset, v, pmsg), map[string]interface{}{"engine": "rt", "fn": "EncodeVarint", "v": v, "offset": offset})
		return false
	}
	bad := base != offset-len(want) || !bytes.Equal(buf[offset-len(want):offset], want)
	if !bad {
		for i := range buf {
			if (i < offset-len(want) || i >= offset) && buf[i] != 0xA5 {
				bad = true
			}
		}
	}
	if bad {
		rep.Violate("C15", "rt/encodevarint", "runtime", fmt.Sprintf("EncodeVarint(buf, %d, %#x) returned %d, buffer %x; want minimal varint %x ending at the offset and no other byte touched", offset, v, base, buf, want), map[string]interface{}{"engine": "rt", "fn": "EncodeVarint", "v": v, "offset": offset})
		return false
	}
	return true
}

// wellFormedRecord renders one random well-formed record (groups nested up to depth).
func wellFormedRecord(r *rand.Rand, depth int) []byte {
	num := protowire.Number(1 + r.Intn(536870911))
	if r.Intn(2) == 0 {
		num = protowire.Number([]int{1, 15, 16, 2047, 2048, 262143, 262144, 33554431, 33554432, 536870911}[r.Intn(10)])
	}
	var b []byte
	if r.Intn(6) == 0 {
		// a well-formed record whose tag varint is padded to 6..10 bytes (protowire and the generated decoders accept it)
		wt := []protowire.Type{protowire.VarintType, protowire.Fixed64Type, protowire.Fixed32Type, protowire.BytesType}[r.Intn(4)]
		b = appendVarintN(b, uint64(num)<<3|uint64(wt), 6+r.Intn(5))
		switch wt {
		case protowire.VarintType:
			b = protowire.AppendVarint(b, uint64Pool[r.Intn(len(uint64Pool))])
		case protowire.Fixed64Type:
			b = protowire.AppendFixed64(b, r.Uint64())
		case protowire.Fixed32Type:
			b = protowire.AppendFixed32(b, r.Uint32())
		default:
			p := make([]byte, r.Intn(20))
			r.Read(p)
			b = protowire.AppendBytes(b, p)
		}
		return b
	}
	switch r.Intn(6) {
	case 0:
		b = protowire.AppendTag(b, num, protowire.VarintType)
		b = protowire.AppendVarint(b, uint64Pool[r.Intn(len(uint64Pool))])
	case 1:
		b = protowire.AppendTag(b, num, protowire.Fixed64Type)
		b = protowire.AppendFixed64(b, r.Uint64())
	case 2:
		b = protowire.AppendTag(b, num, protowire.Fixed32Type)
		b = protowire.AppendFixed32(b, r.Uint32())
	case 3:
		b = protowire.AppendTag(b, num, protowire.BytesType)
		n := []int{0, 1, 2, 127, 128, 129, 300, 16383, 16384, 20000}[r.Intn(10)]
		if r.Intn(2) == 0 {
			n = r.Intn(40)
		}
		p := make([]byte, n)
		r.Read(p)
		b = protowire.AppendBytes(b, p)
	default:
		b = protowire.AppendTag(b, num, protowire.StartGroupType)
		if depth > 0 {
			for k := r.Intn(3); k > 0; k-- {
				b = append(b, wellFormedRecord(r, depth-1)...)
			}
			if r.Intn(4) == 0 {
				// a chain straight down
				d := depth
				if d > 64 {
					d = 64
				}
				inner := protowire.Number(7)
				for i := 0; i < d; i++ {
					b = protowire.AppendTag(b, inner, protowire.StartGroupType)
				}
				for i := 0; i < d; i++ {
					b = protowire.AppendTag(b, inner, protowire.EndGroupType)
				}
			}
		}
		b = protowire.AppendTag(b, num, protowire.EndGroupType)
	}
	return b
}

func rtCheckSkip(rep *Report, in []byte, wellFormed bool) {
	var n int
	var err error
	pan, pmsg := safely(func() { n, err = runtime.Skip(in) })
	rc := map[string]interface{}{"engine": "rt", "fn": "Skip", "input_hex": hex.EncodeToString(in)}
	if pan {
		rep.Violate("C15", "rt/skip-panic", "runtime", fmt.Sprintf("Skip(%x): %s", in, pmsg), rc)
		return
	}
	if err == nil && n <= 0 {
		rep.Violate("C15", "rt/skip-no-progress", "runtime", fmt.Sprintf("Skip(%x) = (%d, nil): no progress without an error", in, n), rc)
		return
	}
	_, _, ref := protowire.ConsumeField(in)
	if ref > 0 { // protowire regards the first record as well formed
		if err != nil || n != ref {
			rep.Violate("C15", "rt/skip-length", "runtime", fmt.Sprintf("Skip(%x) = (%d, %v); protowire.ConsumeField length = %d", in, n, err, ref), rc)
		}
	} else if wellFormed {
		rep.Inconclusive("C15", "generated-record-rejected-by-protowire")
	} else if err == nil && n <= len(in) {
		// not required by the property (it speaks about well-formed input); counted to show how far the skipper
		// and protowire agree on what they refuse.  (A length beyond the input is refused by every caller.)
		rep.Count("C15", "skip-accepts-what-protowire-rejects", 1)
		if len(rep.Notes) < 5 && len(in) < 40 {
			rep.Notes = append(rep.Notes, fmt.Sprintf("Skip accepts %x (length %d), protowire rejects it", in, n))
		}
	} else {
		rep.Count("C15", "skip-and-protowire-both-reject", 1)
	}
}

func engineRT(rep *Report) {
	openProgress()
	only := onlyIndex()
	if only >= 0 {
		// solo re-run of one Skip input (attribution of a hang): regenerate the shard's input stream up to it
		rtSkipInputs(rep, only)
		setProgress(-1, -1, 0)
		return
	}
	si, sn := shard()
	rep.Types = append(rep.Types, "runtime")
	// ---- boundaries (every shard does them; cheap)
	var bnd []uint64
	for k := uint(0); k < 64; k++ {
		for d := uint64(0); d <= 2; d++ {
			bnd = append(bnd, 1<<k-d, 1<<k+d, -(1<<k)-d, -(1<<k)+d)
		}
	}
	bnd = append(bnd, 0, 1, ^uint64(0))
	for _, v := range bnd {
		rtCheckSizes(rep, v)
		for off := 10; off <= 20; off++ {
			rtCheckEncode(rep, v, off)
		}
		rep.Eval("C15", []byte(fmt.Sprintf("b%x", v)), true)
	}
	rep.Count("C15", "boundary-values", int64(len(bnd)))
	// ---- exhaustive 32-bit sweep for Sov/Soz (as low word and shifted into the high word), split over shards
	lo := uint64(si) * (1 << 32) / uint64(sn)
	hi := uint64(si+1) * (1 << 32) / uint64(sn)
	bad := 0
	for x := lo; x < hi && bad < 5; x++ {
		if x&0x3fffff == 0 {
			setProgress(-3, int(x>>22), 5) // (the sweeps are long: keep the progress record moving for the watchdog)
		}
		if !rtCheckSizes(rep, x) || !rtCheckSizes(rep, x<<32) || !rtCheckSizes(rep, x<<32|0xffffffff) {
			bad++
		}
	}
	rep.Count("C15", "sov-soz-values-swept", int64(3*(hi-lo)))
	rep.P("C15").Evals += int64(hi - lo)
	rep.P("C15").Distinct += int64(hi - lo)
	// ---- EncodeVarint: stride sample in quick, full 32-bit range in thorough
	stride := uint64(251)
	if *flagTier == "thorough" {
		stride = 1
	}
	bad = 0
	cnt := int64(0)
	for k, x := uint64(0), lo; x < hi && bad < 5; k, x = k+1, x+stride {
		if k&0xfffff == 0 {
			setProgress(-4, int(k>>20), 6)
		}
		off := 10 + int(x%11)
		if !rtCheckEncode(rep, x, off) || !rtCheckEncode(rep, x<<31, off) {
			bad++
		}
		cnt += 2
	}
	rep.Count("C15", "encodevarint-values", cnt)
	if si == 0 {
		rep.Sample("C15", map[string]interface{}{"sweep": "Sov/Soz for every x in [0,2^32), x<<32 and x<<32|0xffffffff vs protowire; EncodeVarint at offsets 10..20 with canaries", "stride_encodevarint": stride})
	}
	// ---- EncodeVarint from several goroutines, each on its own buffer (calls on disjoint data are independent)
	if si == 0 {
		const G = 8
		per := perType(400000, 4000000)
		prevProcs := goruntime.GOMAXPROCS(G) // really parallel for this phase, whatever the driver allotted
		defer goruntime.GOMAXPROCS(prevProcs)
		fails := make([]string, G)
		var wg sync.WaitGroup
		for gi := 0; gi < G; gi++ {
			wg.Add(1)
			go func(gi int) {
				defer wg.Done()
				defer func() {
					if e := recover(); e != nil {
						fails[gi] = fmt.Sprint("panic: ", e)
					}
				}()
				rr := rand.New(rand.NewSource(caseSeed(*flagSeed, "encode-concurrent", gi, "rt")))
				buf := make([]byte, 32)
				for k := 0; k < per && fails[gi] == ""; k++ {
					v := rr.Uint64() >> uint(rr.Intn(64))
					want := protowire.AppendVarint(nil, v)
					for i := range buf {
						buf[i] = 0xA5
					}
					off := 10 + rr.Intn(11)
					base := runtime.EncodeVarint(buf, off, v)
					if base != off-len(want) || !bytes.Equal(buf[base:off], want) || (base > 0 && buf[base-1] != 0xA5) || buf[off] != 0xA5 {
						fails[gi] = fmt.Sprintf("goroutine %d: EncodeVarint(buf, %d, %#x) returned %d, buffer %x; want %x ending at the offset", gi, off, v, base, buf, want)
					}
				}
			}(gi)
		}
		wg.Wait()
		rep.Count("C15", "encodevarint-concurrent-calls", int64(G*per))
		rep.Eval("C15", []byte("encode-concurrent"), true)
		for _, f := range fails {
			if f != "" {
				rep.Violate("C15", "rt/encodevarint-concurrent", "runtime", "EncodeVarint called from 8 goroutines on private buffers: "+f, map[string]interface{}{"engine": "rt", "fn": "EncodeVarint", "concurrent": true})
				break
			}
		}
	}
	// ---- Skip: one unknown group holding 10001..12000 closed sibling groups (nesting depth 2, well-formed)
	if si == 0 {
		for _, n := range []int{10001, 12000} {
			in := protowire.AppendTag(nil, 7, protowire.StartGroupType)
			for k := 0; k < n; k++ {
				in = protowire.AppendTag(in, protowire.Number(1+k%5), protowire.StartGroupType)
				if k%3 == 0 {
					in = protowire.AppendVarint(protowire.AppendTag(in, 2, protowire.VarintType), uint64(k))
				}
				in = protowire.AppendTag(in, protowire.Number(1+k%5), protowire.EndGroupType)
			}
			in = protowire.AppendTag(in, 7, protowire.EndGroupType)
			rtCheckSkip(rep, in, true)
			rep.Eval("C15", in, true)
			rep.Count("C15", "skip-many-sibling-groups", 1)
		}
	}
	// ---- Skip: groups nested n deep, around protowire's nesting limit (what ConsumeField follows, Skip follows)
	if si == 0 {
		for _, n := range []int{1, 2, 64, 9998, 9999, 10000, 10001, 10002, 10003, 20000} {
			var in []byte
			for k := 0; k < n; k++ {
				in = protowire.AppendTag(in, protowire.Number(1+k%7), protowire.StartGroupType)
			}
			in = protowire.AppendVarint(protowire.AppendTag(in, 3, protowire.VarintType), uint64(n))
			for k := n - 1; k >= 0; k-- {
				in = protowire.AppendTag(in, protowire.Number(1+k%7), protowire.EndGroupType)
			}
			rtCheckSkip(rep, in, false)
			rep.Eval("C15", in, true)
			rep.Count("C15", "skip-nested-groups-at-the-limit", 1)
		}
	}
	// ---- Skip
	nskip := rtSkipInputs(rep, -1)
	rep.Count("C15", "skip-inputs", int64(nskip))
	setProgress(-1, -1, 0)
}

// rtSkipInputs drives Skip over the shard's seeded input stream; with only >= 0 just that input is executed.
func rtSkipInputs(rep *Report, only int) int {
	si, _ := shard()
	r := rand.New(rand.NewSource(caseSeed(*flagSeed, "skip", si, "rt")))
	nskip := perType(20000, 600000)
	for i := 0; i < nskip; i++ {
		var in []byte
		wf := false
		switch i % 4 {
		case 0, 1:
			in = wellFormedRecord(r, 3+r.Intn(70))
			wf = true
			if r.Intn(2) == 0 {
				tail := make([]byte, r.Intn(8))
				r.Read(tail)
				in = append(in, tail...)
			}
		case 2:
			in = wellFormedRecord(r, 3)
			for k := 1 + r.Intn(3); k > 0 && len(in) > 0; k-- {
				j := r.Intn(len(in))
				switch r.Intn(4) {
				case 0:
					in[j] ^= 1 << uint(r.Intn(8))
				case 1:
					in = in[:j]
				case 2:
					in[j] = 0xff
				case 3:
					in[j] |= 0x80
				}
			}
		case 3:
			in = make([]byte, r.Intn(24))
			r.Read(in)
			if r.Intn(4) == 0 {
				// an over-long varint payload (11..14 bytes) behind a tag padded to 1..10 bytes, at the top level or inside a
				// group after a few records (a skipper that lets its cursor move backwards loops or reports no progress)
				in = nil
				if r.Intn(2) == 0 {
					in = protowire.AppendTag(in, protowire.Number(1+r.Intn(100)), protowire.StartGroupType)
					for k := r.Intn(4); k > 0; k-- {
						in = append(in, wellFormedRecord(r, 0)...)
					}
				}
				in = appendVarintN(in, uint64(1+r.Intn(1000))<<3, 1+r.Intn(10))
				for k := 10 + r.Intn(4); k > 0; k-- {
					in = append(in, 0x80|byte(r.Intn(128)))
				}
				in = append(in, byte(r.Intn(128)))
			} else if r.Intn(3) == 0 { // adversarial lengths
				in = nil
				for g := r.Intn(3); g > 0; g-- { // possibly inside (nested) groups
					in = protowire.AppendTag(in, protowire.Number(1+r.Intn(100)), protowire.StartGroupType)
				}
				in = protowire.AppendTag(in, protowire.Number(1+r.Intn(100)), protowire.BytesType)
				in = appendVarintN(in, advLens[r.Intn(len(advLens))], 10)
				in = append(in, byte(r.Intn(256)))
			}
		}
		if only >= 0 && i != only {
			continue
		}
		setProgress(0, i, 3)
		rtCheckSkip(rep, in, wf)
		rep.Eval("C15", in, len(in) > 0)
		if si == 0 && i < 3 {
			rep.Sample("C15", map[string]interface{}{"skip_input_hex": hex.EncodeToString(in), "well_formed": wf})
		}
	}
	return nskip
}
