package main

// Engine "wire": C03 (decoding any well-typed stream gives the reference
// result) and C14 (unknown fields kept exactly / dropped everywhere).

import (
	"bytes"
	"fmt"
	"google.golang.org/protobuf/reflect/protodesc"
	"google.golang.org/protobuf/types/descriptorpb"
	"math/rand"

	"github.com/cosmos/cosmos-proto/zzverif/glue"
	"google.golang.org/protobuf/encoding/protowire"
	"google.golang.org/protobuf/proto"
	"google.golang.org/protobuf/reflect/protoreflect"
	"google.golang.org/protobuf/reflect/protoregistry"
	"google.golang.org/protobuf/runtime/protoiface"
	"google.golang.org/protobuf/types/dynamicpb"
)

func init() { engines["wire"] = engineWire }

// wireCustomResolver: a generated message embedding extendable protobuf-go messages is decoded with a resolver that
// knows an extension the global registry does not: the extension is resolved at every nesting position, exactly as
// for the reference.
func wireCustomResolver(rep *Report) {
	s := glue.Lookup("vf.wkt.HoldsOptions")
	if s == nil {
		return
	}
	d := s.Zero.ProtoReflect().Descriptor()
	stream, unit, rank := customResolverStream()
	if stream == nil {
		rep.Inconclusive("C03", "custom-resolver-descriptor-rejected")
		return
	}
	types := new(protoregistry.Types)
	_ = types.RegisterExtension(unit)
	_ = types.RegisterExtension(rank)
	rc := replayCase{Engine: "wire", Type: string(s.FullName), Seed: *flagSeed, Index: -1, Value: hx(stream), Note: "custom resolver"}
	count := func(m protoreflect.Message) (n int) { // extension fields resolved (known, not unknown bytes) anywhere below m
		var walk func(m protoreflect.Message)
		walk = func(m protoreflect.Message) {
			m.Range(func(f FD, v protoreflect.Value) bool {
				if f.IsExtension() {
					n++
				}
				switch {
				case f.IsList() && f.Kind() == protoreflect.MessageKind:
					for i := 0; i < v.List().Len(); i++ {
						walk(v.List().Get(i).Message())
					}
				case f.IsMap() && f.MapValue().Kind() == protoreflect.MessageKind:
					v.Map().Range(func(_ protoreflect.MapKey, mv protoreflect.Value) bool { walk(mv.Message()); return true })
				case f.Kind() == protoreflect.MessageKind && !f.IsList() && !f.IsMap():
					walk(v.Message())
				}
				return true
			})
		}
		walk(m)
		return
	}
	for entry := 0; entry < 4; entry++ {
		ref := dynamicpb.NewMessage(d)
		if err := (proto.UnmarshalOptions{Resolver: types}).Unmarshal(stream, ref); err != nil {
			rep.Inconclusive("C03", "custom-resolver-reference-rejects")
			return
		}
		S := newOf(s.Zero)
		var uerr error
		pan, pmsg := safely(func() {
			if entry < 2 {
				uerr = proto.UnmarshalOptions{Resolver: types}.Unmarshal(stream, S)
			} else {
				in := protoiface.UnmarshalInput{Message: S.ProtoReflect(), Buf: stream, Resolver: types}
				if entry == 3 {
					in.Depth = protowire.DefaultRecursionLimit
				}
				_, uerr = S.ProtoReflect().ProtoMethods().Unmarshal(in)
			}
		})
		rep.Eval("C03", []byte(fmt.Sprintf("custom-resolver|%d", entry)), true)
		rep.Count("C03", "custom-resolver-decodes", 1)
		if pan || uerr != nil {
			rep.Violate("C03", "wire/unmarshal-fails", string(s.FullName), fmt.Sprintf("(custom resolver, %s) err=%v %s", unmarshalEntryName(entry), uerr, pmsg), rc)
			continue
		}
		if got, want := count(S.ProtoReflect()), count(ref); got != want {
			rep.Violate("C03", "wire/decode-differs/resolver-not-used", string(s.FullName), fmt.Sprintf("(%s) decoding with a resolver that knows two extensions of the embedded option messages: %d extension fields resolved, the reference resolves %d (the rest stays unknown bytes)", unmarshalEntryName(entry), got, want), rc)
		}
	}
}

func engineWire(rep *Report) {
	if si, _ := shard(); si == 0 && onlyIndex() < 0 {
		guardCase(rep, "C03", "wire", "vf.wkt.HoldsOptions", -1, func() { wireCustomResolver(rep) })
	}
	subs := allSubjects()
	n := perType(200, 8000)
	only := onlyIndex()
	for ti, s := range subs {
		rep.Types = append(rep.Types, string(s.FullName))
		d := s.Zero.ProtoReflect().Descriptor()
		for i := 0; i < n; i++ {
			if !mineCase(ti, i) {
				continue
			}
			if only >= 0 && i != only {
				continue
			}
			guardCase(rep, "C03", "wire", string(s.FullName), i, func() { wireCase(rep, s, d, i) })
		}
	}
}

// unknownAt returns the unknown bytes of every message level through fast
// reflection (GetUnknown), in a canonical traversal order, for comparison with
// the struct observer.
func unknownViaReflection(m protoreflect.Message, out *[][]byte, depth int) {
	if depth > 64 || !m.IsValid() {
		return
	}
	*out = append(*out, append([]byte(nil), m.GetUnknown()...))
	fds := m.Descriptor().Fields()
	for i := 0; i < fds.Len(); i++ {
		fd := fds.Get(i)
		if !m.Has(fd) {
			continue
		}
		switch {
		case fd.IsMap():
			if fd.MapValue().Kind() != protoreflect.MessageKind {
				continue
			}
			// deterministic order: sort keys via spec order
			type kv struct {
				k Val
				v protoreflect.Message
			}
			var es []kv
			m.Get(fd).Map().Range(func(k protoreflect.MapKey, v protoreflect.Value) bool {
				es = append(es, kv{valFromValue(fd.MapKey(), k.Value()), v.Message()})
				return true
			})
			for i := 1; i < len(es); i++ {
				for j := i; j > 0 && mapKeyLess(fd.MapKey().Kind(), es[j].k, es[j-1].k); j-- {
					es[j], es[j-1] = es[j-1], es[j]
				}
			}
			for _, e := range es {
				unknownViaReflection(e.v, out, depth+1)
			}
		case fd.IsList():
			if fd.Kind() != protoreflect.MessageKind {
				continue
			}
			l := m.Get(fd).List()
			for j := 0; j < l.Len(); j++ {
				unknownViaReflection(l.Get(j).Message(), out, depth+1)
			}
		case fd.Kind() == protoreflect.MessageKind:
			unknownViaReflection(m.Get(fd).Message(), out, depth+1)
		}
	}
}

func unknownViaIR(m *Msg, out *[][]byte, depth int) {
	if depth > 64 || m == nil || m.Nil {
		return
	}
	*out = append(*out, append([]byte(nil), m.Unk...))
	fds := m.D.Fields()
	for i := 0; i < fds.Len(); i++ {
		fd := fds.Get(i)
		f := m.Get(fd.Number())
		if f == nil {
			continue
		}
		switch {
		case fd.IsMap():
			if fd.MapValue().Kind() != protoreflect.MessageKind {
				continue
			}
			es := append([]KV(nil), f.M...)
			for i := 1; i < len(es); i++ {
				for j := i; j > 0 && mapKeyLess(fd.MapKey().Kind(), es[j].K, es[j-1].K); j-- {
					es[j], es[j-1] = es[j-1], es[j]
				}
			}
			for _, e := range es {
				unknownViaIR(e.V.M, out, depth+1)
			}
		case fd.IsList():
			if fd.Kind() != protoreflect.MessageKind {
				continue
			}
			for _, v := range f.L {
				unknownViaIR(v.M, out, depth+1)
			}
		case fd.Kind() == protoreflect.MessageKind:
			if f.S != nil {
				unknownViaIR(f.S.M, out, depth+1)
			}
		}
	}
}

func wireCase(rep *Report, s *glue.Subject, d MD, idx int) {
	tn := string(s.FullName)
	seed := caseSeed(*flagSeed, tn, idx, "wire")
	o := defaultGen()
	o.Unknown = idx%3 != 0
	if idx%5 == 1 {
		o.PFill = 0.9
	}
	// types embedding proto2 messages: every other case leaves required fields out and decodes with AllowPartial
	partial := idx%2 == 1 && hasRequiredBelow(d)
	o.OmitRequired = partial
	wireAllowPartial = partial
	if partial {
		rep.Count("C03", "cases-with-allowpartial-and-missing-required-fields", 1)
	}
	g := NewGen(seed, o)
	r := rand.New(rand.NewSource(seed ^ 0x77))
	w := &WireGen{R: r, G: g, Unknown: true, NonMin: idx%2 == 0, Muts: map[string]int{}}
	v := g.Msg(d, 0)
	stream := w.Stream(v, 0)
	if idx%6 == 5 {
		// concatenation of two encodings
		v2 := g.Msg(d, 0)
		stream = append(stream, w.Stream(v2, 0)...)
		w.mut("concatenation")
	}
	rc := replayCase{Engine: "wire", Type: tn, Seed: *flagSeed, Index: idx, Value: hx(stream)}
	for k, c := range w.Muts {
		rep.Count("C03", "mutation/"+k, int64(c))
	}

	mergeMode := idx%4 == 3
	var base *Msg
	if mergeMode {
		base = g.Msg(d, 0)
		w.mut("merge-into-non-empty")
		rep.Count("C03", "mutation/merge-into-non-empty", 1)
	}

	for _, discard := range []bool{false, true} {
		prop := "C03"
		if discard {
			prop = "C14"
		}
		// ---- arbiters
		var specRes *Msg
		if mergeMode {
			specRes = cloneIR(base)
		} else {
			specRes = &Msg{D: d}
		}
		serr := SpecDecodeInto(specRes, stream, SpecOpts{DiscardUnknown: discard, CheckUTF8: true}, 0)
		var dyn *dynamicpb.Message
		if mergeMode {
			dyn = BuildDyn(quietF32(base))
		} else {
			dyn = dynamicpb.NewMessage(d)
		}
		derr := proto.UnmarshalOptions{Merge: true, DiscardUnknown: discard, AllowPartial: partial}.Unmarshal(stream, dyn)
		if serr != nil || derr != nil {
			rep.Inconclusive(prop, "stream-rejected-by-a-reference")
			if len(rep.Notes) < 10 {
				rep.Notes = append(rep.Notes, fmt.Sprintf("reference rejects generated stream %s idx=%d spec=%v dyn=%v", tn, idx, serr, derr))
			}
			return
		}
		want := SpecEncode(Canon(specRes))
		wantQ := SpecEncode(quietF32(Canon(specRes)))
		dynB, _ := proto.MarshalOptions{Deterministic: true, AllowPartial: partial}.Marshal(dyn)
		if !bytes.Equal(dynB, wantQ) {
			rep.Inconclusive(prop, "reference-ambiguous(dynamicpb!=spec)")
			if len(rep.Notes) < 10 {
				rep.Notes = append(rep.Notes, fmt.Sprintf("arbiter disagreement %s idx=%d discard=%v: %s", tn, idx, discard, firstDiff(dynB, wantQ)))
			}
			continue
		}
		lv, nb := unknownLevels(specRes)
		if !discard {
			rep.Eval("C03", stream, len(w.Muts) > 0)
			rep.Eval("C14", stream, lv > 0)
			rep.Count("C14", "levels-with-unknown", int64(lv))
			rep.Count("C14", "unknown-bytes", int64(nb))
			if idx < 2 {
				rep.Sample("C03", map[string]interface{}{"type": tn, "stream_hex": hx(stream), "mutations": w.Muts, "merge_into_non_empty": mergeMode})
			}
			if lv > 0 && idx < 30 {
				rep.Sample("C14", map[string]interface{}{"type": tn, "stream_hex": hx(stream), "levels_with_unknown": lv, "unknown_bytes": nb})
			}
		} else {
			rep.Eval("C14", append([]byte("discard|"), stream...), len(stream) > 0)
		}

		// ---- subject
		var S proto.Message
		if mergeMode {
			S = BuildStruct(s.Zero, base)
		} else {
			S = newOf(s.Zero)
		}
		var uerr error
		vi := 0
		if discard {
			vi = 1
		}
		entry := (idx/4 + 2*vi) % 4 // 0,1: library call; 2: fast path called directly without a nesting budget; 3: with one
		pan, pmsg := safely(func() {
			uerr = unmarshalVia(entry, stream, S, mergeMode, discard)
		})
		rep.Count("C03", "decode-entry/"+unmarshalEntryName(entry), 1)
		mode := "plain"
		if mergeMode {
			mode = "merge"
		}
		if discard {
			mode += "+discard"
		}
		if entry >= 2 {
			mode += "," + unmarshalEntryName(entry)
		}
		if pan || uerr != nil {
			rep.Violate(prop, "wire/unmarshal-fails", tn, fmt.Sprintf("(%s) references accept the stream, generated Unmarshal: err=%v %s", mode, uerr, pmsg), rc)
			continue
		}
		got := SpecEncode(Canon(StructToIR(S)))
		if !bytes.Equal(got, want) {
			// is the difference only in unknown fields?
			gk := SpecEncode(stripUnknown(Canon(StructToIR(S))))
			wk := SpecEncode(stripUnknown(Canon(specRes)))
			if bytes.Equal(gk, wk) {
				rep.Violate("C14", "wire/unknown-fields-differ", tn, fmt.Sprintf("(%s) known fields agree, unknown-field sets differ: %s", mode, firstDiff(got, want)), rc)
			} else {
				rep.Violate(prop, "wire/decode-differs", tn, fmt.Sprintf("(%s) decoded value differs from the references: %s", mode, firstDiff(got, want)), rc)
			}
			continue
		}
		if discard {
			// nothing unknown survives at any depth
			if l2, _ := unknownLevels(StructToIR(S)); l2 != 0 && !mergeMode {
				rep.Violate("C14", "wire/discard-survivor", tn, "unknown fields survive DiscardUnknown", rc)
			}
			continue
		}
		// ---- C14: GetUnknown at every level == struct unknown bytes == spec arbiter
		var viaRefl, viaIR [][]byte
		pan, pmsg = safely(func() { unknownViaReflection(S.ProtoReflect(), &viaRefl, 0) })
		unknownViaIR(Canon(specRes), &viaIR, 0)
		if pan {
			rep.Violate("C14", "wire/getunknown-panic", tn, pmsg, rc)
		} else if len(viaRefl) != len(viaIR) {
			rep.Violate("C14", "wire/getunknown-levels", tn, fmt.Sprintf("GetUnknown traversal visits %d levels, reference %d", len(viaRefl), len(viaIR)), rc)
		} else {
			for i := range viaRefl {
				if !bytes.Equal(viaRefl[i], viaIR[i]) {
					rep.Violate("C14", "wire/getunknown-differs", tn, fmt.Sprintf("GetUnknown at level #%d: %x, injected %x", i, viaRefl[i], viaIR[i]), rc)
					break
				}
			}
		}
		// re-encoding emits the known fields then the unknown bytes unchanged
		var re []byte
		var merr error
		pan, pmsg = safely(func() { re, merr = proto.MarshalOptions{Deterministic: true, AllowPartial: partial}.Marshal(S) })
		if pan || merr != nil {
			rep.Violate(prop, "wire/remarshal-fails", tn, fmt.Sprintf("Marshal of decoded message: err=%v %s", merr, pmsg), rc)
		} else if !bytes.Equal(re, want) {
			rep.Violate(prop, "wire/remarshal-differs", tn, "re-encoding of the decoded message differs from the reference: "+firstDiff(re, want), rc)
			if lv > 0 {
				rep.Violate("C14", "wire/remarshal-differs", tn, "re-encoding of a message holding unknown fields differs from known fields followed by the unknown bytes: "+firstDiff(re, want), rc)
			}
		} else if len(specRes.Unk) > 0 && !bytes.HasSuffix(re, specRes.Unk) {
			rep.Violate("C14", "wire/remarshal-unknown-suffix", tn, "re-encoding does not end with the unknown bytes", rc)
		}
		// SetUnknown / GetUnknown replace exactly that set
		if idx%8 == 0 {
			nu := g.UnknownRecord(d, 0)
			fpKnown := SpecEncode(stripUnknown(Canon(StructToIR(S))))
			pan, pmsg = safely(func() { S.ProtoReflect().SetUnknown(append(protoreflect.RawFields{}, nu...)) })
			if pan {
				rep.Violate("C14", "wire/setunknown-panic", tn, pmsg, rc)
			} else {
				ir := StructToIR(S)
				if !bytes.Equal(ir.Unk, nu) || !bytes.Equal(S.ProtoReflect().GetUnknown(), nu) {
					rep.Violate("C14", "wire/setunknown-roundtrip", tn, fmt.Sprintf("SetUnknown(%x) then GetUnknown=%x struct=%x", nu, S.ProtoReflect().GetUnknown(), ir.Unk), rc)
				}
				if !bytes.Equal(SpecEncode(stripUnknown(Canon(ir))), fpKnown) {
					rep.Violate("C14", "wire/setunknown-touches-known", tn, "SetUnknown changed known fields", rc)
				}
				// save / replace / restore, and swapping sets between two messages
				big := append(append(protoreflect.RawFields{}, nu...), g.UnknownRecord(d, 0)...)
				S.ProtoReflect().SetUnknown(big)
				saved := S.ProtoReflect().GetUnknown()
				savedCopy := append([]byte{}, saved...)
				S.ProtoReflect().SetUnknown(protoreflect.RawFields{0xc0, 0x3e, 0x07})
				S.ProtoReflect().SetUnknown(saved)
				if got := S.ProtoReflect().GetUnknown(); !bytes.Equal(got, savedCopy) {
					rep.Violate("C14", "wire/setunknown-save-restore", tn, fmt.Sprintf("u := GetUnknown(); SetUnknown(v); SetUnknown(u): GetUnknown=%x, originally %x", got, savedCopy), rc)
				}
				T := newOf(s.Zero)
				T.ProtoReflect().SetUnknown(protoreflect.RawFields{0xc8, 0x3e, 0x01})
				a, b := S.ProtoReflect().GetUnknown(), T.ProtoReflect().GetUnknown()
				ac, bc := append([]byte{}, a...), append([]byte{}, b...)
				S.ProtoReflect().SetUnknown(b)
				T.ProtoReflect().SetUnknown(a)
				if !bytes.Equal(S.ProtoReflect().GetUnknown(), bc) || !bytes.Equal(T.ProtoReflect().GetUnknown(), ac) {
					rep.Violate("C14", "wire/setunknown-swap", tn, fmt.Sprintf("swapping the unknown sets of two messages: got %x / %x, want %x / %x", S.ProtoReflect().GetUnknown(), T.ProtoReflect().GetUnknown(), bc, ac), rc)
				}
				S.ProtoReflect().SetUnknown(nil)
				if len(S.ProtoReflect().GetUnknown()) != 0 {
					rep.Violate("C14", "wire/setunknown-clear", tn, "SetUnknown(nil) does not clear", rc)
				}
				rep.Count("C14", "setunknown-roundtrips", 1)
			}
		}
	}
}

// wireAllowPartial: the current case decodes with AllowPartial (set by wireCase; the codec engine leaves it false).
var wireAllowPartial bool

// unmarshalVia decodes b into m through one of the entry points of the generated decoder.
func unmarshalVia(entry int, b []byte, m proto.Message, merge, discard bool) error {
	if entry < 2 {
		return proto.UnmarshalOptions{Merge: merge, DiscardUnknown: discard, AllowPartial: wireAllowPartial}.Unmarshal(b, m)
	}
	pm := m.ProtoReflect().ProtoMethods()
	if pm == nil || pm.Unmarshal == nil {
		return proto.UnmarshalOptions{Merge: merge, DiscardUnknown: discard, AllowPartial: wireAllowPartial}.Unmarshal(b, m)
	}
	if !merge {
		proto.Reset(m)
	}
	in := protoiface.UnmarshalInput{Message: m.ProtoReflect(), Buf: b, Resolver: protoregistry.GlobalTypes}
	if discard {
		in.Flags |= protoiface.UnmarshalDiscardUnknown
	}
	if entry == 3 {
		in.Depth = protowire.DefaultRecursionLimit
	}
	_, err := pm.Unmarshal(in)
	return err
}

func unmarshalEntryName(entry int) string {
	return []string{"proto.Unmarshal", "proto.Unmarshal", "ProtoMethods().Unmarshal(Depth=0)", "ProtoMethods().Unmarshal(Depth=limit)"}[entry]
}

// customResolverStream: an encoding of vf.wkt.HoldsOptions whose embedded FieldOptions / MessageOptions carry two
// extensions that only the returned (dynamic) extension types describe.
func customResolverStream() ([]byte, protoreflect.ExtensionType, protoreflect.ExtensionType) {
	fdp := &descriptorpb.FileDescriptorProto{Name: proto.String("vfdyn/ext.proto"), Package: proto.String("vf.dynext"), Syntax: proto.String("proto2"),
		Dependency: []string{"google/protobuf/descriptor.proto"},
		Extension: []*descriptorpb.FieldDescriptorProto{
			{Name: proto.String("unit"), Number: proto.Int32(50900), Label: descriptorpb.FieldDescriptorProto_LABEL_OPTIONAL.Enum(), Type: descriptorpb.FieldDescriptorProto_TYPE_STRING.Enum(), Extendee: proto.String(".google.protobuf.FieldOptions")},
			{Name: proto.String("rank"), Number: proto.Int32(50901), Label: descriptorpb.FieldDescriptorProto_LABEL_OPTIONAL.Enum(), Type: descriptorpb.FieldDescriptorProto_TYPE_SINT32.Enum(), Extendee: proto.String(".google.protobuf.MessageOptions")},
		}}
	fd, err := protodesc.NewFile(fdp, protoregistry.GlobalFiles)
	if err != nil {
		return nil, nil, nil
	}
	unit := dynamicpb.NewExtensionType(fd.Extensions().ByName("unit"))
	rank := dynamicpb.NewExtensionType(fd.Extensions().ByName("rank"))
	fo := protowire.AppendString(protowire.AppendTag(nil, 50900, protowire.BytesType), "kg")
	mo := protowire.AppendVarint(protowire.AppendTag(nil, 50901, protowire.VarintType), protowire.EncodeZigZag(-4))
	level := protowire.AppendBytes(protowire.AppendTag(nil, 1, protowire.BytesType), fo)
	level = protowire.AppendBytes(protowire.AppendTag(level, 2, protowire.BytesType), mo)
	ent := protowire.AppendString(protowire.AppendTag(nil, 1, protowire.BytesType), "k")
	ent = protowire.AppendBytes(protowire.AppendTag(ent, 2, protowire.BytesType), fo)
	level = protowire.AppendBytes(protowire.AppendTag(level, 3, protowire.BytesType), ent)
	stream := append(append([]byte{}, level...), protowire.AppendBytes(protowire.AppendTag(nil, 4, protowire.BytesType), level)...)
	return stream, unit, rank
}
