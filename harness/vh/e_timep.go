package main

// Engine "timep": C17 - timepb arithmetic is exact and normalised; Compare is chronological.

import (
	"fmt"
	"math"
	"math/big"
	"math/rand"
	"time"

	"github.com/cosmos/cosmos-proto/support/timepb"
	durpb "google.golang.org/protobuf/types/known/durationpb"
	tspb "google.golang.org/protobuf/types/known/timestamppb"
)

func init() { engines["timep"] = engineTimep }

const (
	minTS  = int64(-62135596800)
	maxTS  = int64(253402300799)
	maxDur = int64(315576000000)
	bil    = int64(1000000000)
)

var bigBil = big.NewInt(bil)

func instant(s int64, n int32) *big.Int {
	x := new(big.Int).Mul(big.NewInt(s), bigBil)
	return x.Add(x, big.NewInt(int64(n)))
}

func sign(x int) int {
	if x < 0 {
		return -1
	}
	if x > 0 {
		return 1
	}
	return 0
}

type tsd struct {
	ts, tn int64
	ds, dn int64
}

func checkAdd(rep *Report, ts int64, tn int32, ds int64, dn int32, validInputs bool, class string) {
	t := &tspb.Timestamp{Seconds: ts, Nanos: tn}
	d := &durpb.Duration{Seconds: ds, Nanos: dn}
	rc := map[string]interface{}{"engine": "timep", "fn": "Add", "t": []int64{ts, int64(tn)}, "d": []int64{ds, int64(dn)}, "class": class}
	exact := new(big.Int).Add(instant(ts, tn), instant(ds, dn))
	// floor division into (seconds, nanos in [0,1e9))
	es, en := new(big.Int).DivMod(exact, bigBil, new(big.Int))
	fits := es.IsInt64()
	var r *tspb.Timestamp
	pan, pmsg := safely(func() { r = timepb.Add(t, d) })
	rep.Eval("C17", []byte(fmt.Sprintf("add|%d|%d|%d|%d", ts, tn, ds, dn)), ds != 0 || dn != 0)
	rep.Count("C17", "add/"+class, 1)
	if t.Seconds != ts || t.Nanos != tn || d.Seconds != ds || d.Nanos != dn {
		rep.Violate("C17", "timep/add-mutates-argument", "timepb", fmt.Sprintf("Add changed its arguments: t=%v d=%v", t, d), rc)
	}
	if !fits {
		if !pan {
			rep.Violate("C17", "timep/add-overflow-not-detected", "timepb", fmt.Sprintf("Add({%d,%d},{%d,%d}): seconds do not fit in int64 but no panic; returned {%d,%d}", ts, tn, ds, dn, r.GetSeconds(), r.GetNanos()), rc)
		}
		return
	}
	if pan {
		if validInputs {
			rep.Violate("C17", "timep/add-panics", "timepb", fmt.Sprintf("Add({%d,%d},{%d,%d}) panics on valid input: %s", ts, tn, ds, dn, pmsg), rc)
		} else if !(ds > 0 && math.MaxInt64-ds < ts) && !(ds < 0 && math.MinInt64-ds > ts) {
			// the component-wise seconds sum fits as well: nothing to overflow
			rep.Violate("C17", "timep/add-panics", "timepb", fmt.Sprintf("Add({%d,%d},{%d,%d}) panics although the result {%v,%v} is representable: %s", ts, tn, ds, dn, es, en, pmsg), rc)
		}
		return
	}
	if r == t {
		rep.Violate("C17", "timep/add-aliases", "timepb", "Add returned its argument instead of a fresh value", rc)
	}
	if r.Seconds != es.Int64() || int64(r.Nanos) != en.Int64() {
		key := "timep/add-wrong"
		if instant(r.Seconds, r.Nanos).Cmp(exact) == 0 {
			key = "timep/add-not-normalised"
		}
		rep.Violate("C17", key, "timepb", fmt.Sprintf("Add({%d,%d},{%d,%d}) = {%d,%d}, exact normalised result {%v,%v}", ts, tn, ds, dn, r.Seconds, r.Nanos, es, en), rc)
		return
	}
	if validInputs && es.Int64() >= minTS && es.Int64() <= maxTS {
		if err := r.CheckValid(); err != nil {
			rep.Violate("C17", "timep/add-invalid-result", "timepb", fmt.Sprintf("Add({%d,%d},{%d,%d}) = {%d,%d} is not a valid Timestamp: %v", ts, tn, ds, dn, r.Seconds, r.Nanos, err), rc)
		}
	}
	// agreement with AddStd where the duration is expressible as a time.Duration
	if validInputs {
		dd := instant(ds, dn)
		if dd.IsInt64() {
			std := time.Duration(dd.Int64())
			var r2 *tspb.Timestamp
			pan2, pmsg2 := safely(func() { r2 = timepb.AddStd(t, std) })
			rep.Count("C17", "addstd-comparisons", 1)
			if pan2 {
				rep.Violate("C17", "timep/addstd-panics", "timepb", fmt.Sprintf("AddStd({%d,%d}, %d ns) panics: %s", ts, tn, dd.Int64(), pmsg2), rc)
			} else if r2.Seconds != r.Seconds || r2.Nanos != r.Nanos {
				rep.Violate("C17", "timep/addstd-disagrees", "timepb", fmt.Sprintf("AddStd({%d,%d}, %d ns) = {%d,%d} but Add = {%d,%d}", ts, tn, dd.Int64(), r2.Seconds, r2.Nanos, r.Seconds, r.Nanos), rc)
			} else if r2 == t {
				rep.Violate("C17", "timep/add-aliases", "timepb", "AddStd returned its argument", rc)
			}
		}
	}
}

func validDur(r *rand.Rand) (int64, int32) {
	if r.Intn(40) == 0 {
		// within a second of math.MaxInt64 / math.MinInt64 nanoseconds
		nn := []int32{854775807, 854775806, 854775000, 854000000, 854775807 - int32(r.Intn(2000))}[r.Intn(5)]
		if r.Intn(2) == 0 {
			return 9223372036, nn
		}
		return -9223372036, -nn
	}
	var s int64
	switch r.Intn(6) {
	case 0:
		s = 0
	case 1:
		s = []int64{1, -1, maxDur, -maxDur, maxDur - 1, -maxDur + 1, 9223372036, -9223372036, 9223372037, 292 * 365 * 86400}[r.Intn(10)]
	case 2:
		s = r.Int63n(2*maxDur+1) - maxDur
	case 3:
		// long but still expressible as a time.Duration (|d| < ~292 years)
		s = 1<<24 + r.Int63n(9200000000-(1<<24))
		if r.Intn(2) == 0 {
			s = -s
		}
	default:
		s = r.Int63n(2000001) - 1000000
	}
	nn := []int32{0, 1, 999999999, 500000000, 999999998, 2, 999999997, 999999000}[r.Intn(8)]
	if r.Intn(3) == 0 {
		nn = int32(r.Intn(1000000000))
	}
	// sign consistency
	if s < 0 || (s == 0 && r.Intn(2) == 0) {
		nn = -nn
	}
	return s, nn
}

func validTS(r *rand.Rand) (int64, int32) {
	var s int64
	switch r.Intn(6) {
	case 0:
		s = []int64{minTS, maxTS, minTS + 1, maxTS - 1, 0, -1, 1, 1700000000}[r.Intn(8)]
	case 1:
		s = minTS + r.Int63n(maxTS-minTS+1)
	default:
		s = r.Int63n(4000000001) - 2000000000
	}
	nn := []int32{0, 1, 999999999, 500000000, 999999998, 2}[r.Intn(6)]
	if r.Intn(3) == 0 {
		nn = int32(r.Intn(1000000000))
	}
	return s, nn
}

func engineTimep(rep *Report) {
	si, sn := shard()
	rep.Types = append(rep.Types, "timepb")
	r := rand.New(rand.NewSource(caseSeed(*flagSeed, "timep", si, "")))
	// ---- exhaustive carry/borrow boundaries (shard 0 only; small)
	if si == 0 {
		ns := []int32{0, 1, 2, 499999999, 500000000, 500000001, 999999998, 999999999}
		secsT := []int64{0, 1, -1, 10, -10, minTS, maxTS, 1700000000}
		secsD := []int64{0, 1, -1, 10, -10, maxDur, -maxDur}
		cnt := 0
		for _, ts := range secsT {
			for _, tn := range ns {
				for _, ds := range secsD {
					for _, dn0 := range ns {
						for _, sg := range []int32{1, -1} {
							dn := dn0 * sg
							if (ds > 0 && dn < 0) || (ds < 0 && dn > 0) {
								continue // not a valid duration
							}
							checkAdd(rep, ts, tn, ds, dn, true, "boundary-grid")
							cnt++
						}
					}
				}
			}
		}
		rep.Count("C17", "boundary-grid-cases", int64(cnt))
		rep.Sample("C17", map[string]interface{}{"grid": "t.seconds x t.nanos x d.seconds x +-d.nanos over carry/borrow boundary values", "cases": cnt})
	}
	n := perType(60000, 4000000) / sn
	for i := 0; i < n; i++ {
		ts, tn := validTS(r)
		ds, dn := validDur(r)
		checkAdd(rep, ts, tn, ds, dn, true, "valid-random")
		if i < 2 && si == 0 {
			rep.Sample("C17", map[string]interface{}{"t": []int64{ts, int64(tn)}, "d": []int64{ds, int64(dn)}})
		}
	}
	// ---- overflow class: arbitrary int64 seconds
	for i := 0; i < n/4; i++ {
		var ts int64
		switch r.Intn(4) {
		case 0:
			ts = math.MaxInt64 - r.Int63n(1000)
		case 1:
			ts = math.MinInt64 + r.Int63n(1000)
		case 2:
			ts = int64(r.Uint64())
		case 3:
			ts = math.MaxInt64 - r.Int63n(2*maxDur)
		}
		_, tn := validTS(r)
		ds, dn := validDur(r)
		if r.Intn(4) == 0 {
			ds = int64(r.Uint64())
			if (ds < 0 && dn > 0) || (ds > 0 && dn < 0) {
				dn = -dn
			}
		}
		checkAdd(rep, ts, tn, ds, dn, false, "overflow-class")
	}
	// ---- the extremes of time.Duration (AddStd): exactly MinInt64 / MaxInt64 nanoseconds and their neighbours
	for i := 0; i < 60; i++ {
		ts, tn := validTS(r)
		for _, d := range [][2]int64{{-9223372036, -854775808}, {-9223372036, -854775807}, {-9223372036, -854775806}, {9223372036, 854775807}, {9223372036, 854775806}} {
			checkAdd(rep, ts, tn, d[0], int32(d[1]), true, "duration-extremes")
		}
	}
	// ---- overflow edge: the seconds sum lands exactly on (or one short of) MaxInt64 / MinInt64 and the nanos carry / borrow
	for i := 0; i < 400; i++ {
		k := 2 + r.Int63n(2000)
		j := int64(i % 3) // 0: carry overflows; 1, 2: still fits
		tn := int32(500000000 + r.Intn(500000000))
		dn := int32(1000000000 - int(tn) + r.Intn(int(tn))) // tn+dn >= 1e9, dn < 1e9
		if dn >= 1000000000 {
			dn = 999999999
		}
		if i%2 == 0 {
			checkAdd(rep, math.MaxInt64-k, tn, k-j, dn, false, "overflow-edge")
		} else {
			// borrow: nanos sum negative
			tn2 := int32(r.Intn(400000000))
			dn2 := -int32(int(tn2) + 1 + r.Intn(500000000))
			checkAdd(rep, math.MinInt64+k, tn2, -(k - j), dn2, false, "overflow-edge")
		}
	}
	// ---- Compare: instant order, antisymmetry, transitivity
	var pool [][2]int64
	for i := 0; i < 60; i++ {
		s, nn := validTS(r)
		pool = append(pool, [2]int64{s, int64(nn)})
		if i%3 == 0 {
			pool = append(pool, [2]int64{s, int64(nn)}, [2]int64{s, int64((nn + 1) % 1000000000)}, [2]int64{s + 1, int64(nn)})
		}
	}
	cmp := func(a, b [2]int64) (int, bool) {
		var c int
		pan, _ := safely(func() {
			c = timepb.Compare(&tspb.Timestamp{Seconds: a[0], Nanos: int32(a[1])}, &tspb.Timestamp{Seconds: b[0], Nanos: int32(b[1])})
		})
		return c, pan
	}
	for i, a := range pool {
		for j, b := range pool {
			c, pan := cmp(a, b)
			want := instant(a[0], int32(a[1])).Cmp(instant(b[0], int32(b[1])))
			rep.Eval("C17", []byte(fmt.Sprintf("cmp|%v|%v", a, b)), i != j)
			rc := map[string]interface{}{"engine": "timep", "fn": "Compare", "a": a, "b": b}
			if pan {
				rep.Violate("C17", "timep/compare-panics", "timepb", fmt.Sprintf("Compare(%v,%v) panics", a, b), rc)
				continue
			}
			if sign(c) != want {
				rep.Violate("C17", "timep/compare-order", "timepb", fmt.Sprintf("Compare(%v,%v)=%d, instants compare %d", a, b, c, want), rc)
			}
			c2, _ := cmp(b, a)
			if sign(c2) != -sign(c) {
				rep.Violate("C17", "timep/compare-antisymmetry", "timepb", fmt.Sprintf("Compare(%v,%v)=%d but Compare(b,a)=%d", a, b, c, c2), rc)
			}
		}
	}
	rep.Count("C17", "compare-pairs", int64(len(pool)*len(pool)))
	for k := 0; k < 20000; k++ {
		a, b, c := pool[r.Intn(len(pool))], pool[r.Intn(len(pool))], pool[r.Intn(len(pool))]
		ab, _ := cmp(a, b)
		bc, _ := cmp(b, c)
		ac, _ := cmp(a, c)
		if ab <= 0 && bc <= 0 && ac > 0 {
			rep.Violate("C17", "timep/compare-transitivity", "timepb", fmt.Sprintf("a<=b, b<=c but a>c for %v %v %v", a, b, c), nil)
		}
	}
	rep.Count("C17", "transitivity-triples", 20000)
}
