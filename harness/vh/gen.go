package main

// Seeded generators of IR values.  All randomness comes from the *rand.Rand
// handed in (derived from VERIF_SEED, type name and case index), never from time.

import (
	"math"
	"math/rand"
	"strings"

	"google.golang.org/protobuf/reflect/protoreflect"
)

var int64Pool, uint64Pool []uint64

func init() {
	seen := map[uint64]bool{}
	add := func(p *[]uint64, v uint64) {
		*p = append(*p, v)
	}
	for k := uint(0); k < 64; k++ {
		for _, v := range []uint64{1<<k - 1, 1 << k, 1<<k + 1, -(1 << k), -(1 << k) - 1, -(1 << k) + 1} {
			if !seen[v] {
				seen[v] = true
				add(&uint64Pool, v)
			}
		}
	}
	uint64Pool = append(uint64Pool, math.MaxUint64, 0, 1, 127, 128, 16383, 16384, 300)
	int64Pool = uint64Pool
}

var f32Pool = []uint32{
	0x00000000, 0x80000000, // +0 -0
	0x3f800000, 0xbf800000, // +-1
	0x7f800000, 0xff800000, // +-Inf
	0x7fc00000, 0xffc00000, 0x7fc00001, 0x7fffffff, // quiet NaNs
	0x7f800001, 0x7fa00000, 0xff800001, 0x7fbfffff, // signalling NaNs
	0x00000001, 0x007fffff, 0x80000001, // subnormals
	0x7f7fffff, 0xff7fffff, 0x00800000, // max, min normal
	0x40490fdb, 0x3eaaaaab,
}

var f64Pool = []uint64{
	0, 0x8000000000000000,
	0x3ff0000000000000, 0xbff0000000000000,
	0x7ff0000000000000, 0xfff0000000000000,
	0x7ff8000000000000, 0xfff8000000000000, 0x7ff8000000000001, 0x7fffffffffffffff,
	0x7ff0000000000001, 0x7ff4000000000000, 0xfff0000000000001,
	0x0000000000000001, 0x000fffffffffffff, 0x8000000000000001,
	0x7fefffffffffffff, 0xffefffffffffffff, 0x0010000000000000,
	0x400921fb54442d18, 0x3fd5555555555555,
	0x36a0000000000000, 0x47efffffe0000000, // float32 subnormal / max as doubles
}

var strPool = []string{
	"", "a", "B", "ab", "abc", "hello world", "A", "b", "a\x00b", "\x00", " ", "\n\t",
	"é", "ß", "Ω", "€", "日本語", "한국어", "\U0001F600", "\U00010000", "\U0010FFFF", "�", "\u0080", "߿", "ࠀ", "￿",
	"à", "Z", "z", "aa", "aB", "Aa", "~", "0", "10", "9", "-1",
	"\"quoted\"", "back\\slash", "<tag>&amp;", "{\"json\":1}", "  ",
}

var bytesPool = [][]byte{
	{}, {0}, {1}, {0xff}, {0x80}, {0xc3, 0x28}, {0xff, 0xfe, 0xfd}, {0x08, 0x01}, {0x0a, 0x02, 0x08, 0x01},
	[]byte("text"), {0x7f}, {0xe2, 0x82}, {0xf0, 0x9f, 0x98}, {0x0b, 0x0c}, {0x1a, 0x00},
}

type GenOpts struct {
	MaxDepth   int
	PFill      float64 // probability a field is populated
	Unknown    bool    // add unknown fields
	MaxElems   int
	LongValues bool // allow long strings/bytes (>=128, >=16384)
	ValidEnums bool // only declared enum numbers
	NoSNaN     bool // avoid float32 signalling NaNs (for Value-based worlds)
	// OmitRequired: required fields of embedded proto2 messages are treated like any other field (may be left
	// out): partial messages, to be handled with AllowPartial
	OmitRequired bool
}

func defaultGen() GenOpts {
	return GenOpts{MaxDepth: 4, PFill: 0.5, Unknown: true, MaxElems: 6, LongValues: true}
}

type Gen struct {
	R *rand.Rand
	O GenOpts
	// cells records which (kind/shape) combinations were populated
	Cells map[string]int
}

func NewGen(seed int64, o GenOpts) *Gen {
	return &Gen{R: rand.New(rand.NewSource(seed)), O: o, Cells: map[string]int{}}
}

func (g *Gen) str() []byte {
	r := g.R
	switch r.Intn(12) {
	case 0:
		if g.O.LongValues {
			n := []int{127, 128, 129, 300, 16383, 16384, 16385}[r.Intn(7)]
			if r.Intn(4) != 0 && n > 300 {
				n = 128 + r.Intn(100)
			}
			return []byte(strings.Repeat(strPool[3+r.Intn(5)], n)[:n])
		}
		fallthrough
	case 1, 2:
		// random concatenation
		var sb strings.Builder
		for i := r.Intn(4); i >= 0; i-- {
			sb.WriteString(strPool[r.Intn(len(strPool))])
		}
		return []byte(sb.String())
	}
	return []byte(strPool[r.Intn(len(strPool))])
}

func (g *Gen) bytes() []byte {
	r := g.R
	switch r.Intn(8) {
	case 0:
		if g.O.LongValues {
			n := []int{127, 128, 200, 16384}[r.Intn(4)]
			if n > 200 && r.Intn(4) != 0 {
				n = 130
			}
			b := make([]byte, n)
			r.Read(b)
			return b
		}
		fallthrough
	case 1:
		b := make([]byte, r.Intn(20))
		r.Read(b)
		return b
	}
	return append([]byte{}, bytesPool[r.Intn(len(bytesPool))]...)
}

func (g *Gen) Scalar(fd FD) Val {
	r := g.R
	switch fd.Kind() {
	case protoreflect.BoolKind:
		return Val{U: uint64(r.Intn(2))}
	case protoreflect.EnumKind:
		vals := fd.Enum().Values()
		if g.O.ValidEnums || r.Intn(3) != 0 {
			return normScalar(fd.Kind(), Val{U: uint64(int64(vals.Get(r.Intn(vals.Len())).Number()))})
		}
		return normScalar(fd.Kind(), Val{U: []uint64{0, 1, 2, 99, 127, 128, 1 << 20, math.MaxInt32, uint64(0xffffffffffffffff), uint64(0xffffffff80000000), uint64(0xffffffffffffff80)}[r.Intn(11)]})
	case protoreflect.FloatKind:
		if r.Intn(4) == 0 {
			return Val{U: uint64(math.Float32bits(float32(r.NormFloat64() * 1e3)))}
		}
		for {
			u := f32Pool[r.Intn(len(f32Pool))]
			if g.O.NoSNaN && u&0x7f800000 == 0x7f800000 && u&0x007fffff != 0 && u&0x00400000 == 0 {
				continue
			}
			return Val{U: uint64(u)}
		}
	case protoreflect.DoubleKind:
		if r.Intn(4) == 0 {
			return Val{U: math.Float64bits(r.NormFloat64() * 1e6)}
		}
		return Val{U: f64Pool[r.Intn(len(f64Pool))]}
	case protoreflect.StringKind:
		return Val{B: g.str()}
	case protoreflect.BytesKind:
		return Val{B: g.bytes()}
	case protoreflect.MessageKind, protoreflect.GroupKind:
		panic("Scalar: message")
	}
	var u uint64
	if r.Intn(5) == 0 {
		u = r.Uint64() >> uint(r.Intn(64))
		if r.Intn(2) == 0 {
			u = -u
		}
	} else {
		u = uint64Pool[r.Intn(len(uint64Pool))]
	}
	return normScalar(fd.Kind(), Val{U: u})
}

func shapeOf(fd FD) string {
	switch {
	case fd.IsMap():
		return "map"
	case fd.IsList():
		if fd.IsPacked() {
			return "packed"
		}
		return "repeated"
	case inOneof(fd):
		return "oneof"
	}
	return "singular"
}

func (g *Gen) cell(fd FD) {
	if fd.IsMap() {
		g.Cells["map/"+fd.MapKey().Kind().String()+"->"+fd.MapValue().Kind().String()]++
		return
	}
	g.Cells[shapeOf(fd)+"/"+fd.Kind().String()]++
}

func (g *Gen) val(fd FD, depth int) Val {
	if fd.Kind() == protoreflect.MessageKind {
		return Val{M: g.Msg(fd.Message(), depth+1)}
	}
	return g.Scalar(fd)
}

// usable field numbers for unknown records: not used by the message at this level,
// not in the reserved implementation range.
func (g *Gen) unknownNumber(d MD) uint64 {
	cands := []uint64{1, 2, 3, 15, 16, 17, 100, 2047, 2048, 5000, 262143, 262144, 18999, 19000, 19500, 19999, 20000, 33554431, 33554432, 268435455, 268435456, 536870911}
	for tries := 0; tries < 50; tries++ {
		var n uint64
		if g.R.Intn(3) == 0 {
			n = uint64(1 + g.R.Intn(536870911))
		} else {
			n = cands[g.R.Intn(len(cands))]
		}
		if d.Fields().ByNumber(protoreflect.FieldNumber(n)) != nil {
			continue
		}
		return n
	}
	return 536870910
}

// UnknownRecord renders one well-formed unknown record for message d.
func (g *Gen) UnknownRecord(d MD, groupDepth int) []byte {
	r := g.R
	n := g.unknownNumber(d)
	var b []byte
	switch r.Intn(5) {
	case 0:
		b = appendVarint(b, n<<3|0)
		b = appendVarint(b, uint64Pool[r.Intn(len(uint64Pool))])
	case 1:
		b = appendVarint(b, n<<3|1)
		var x [8]byte
		r.Read(x[:])
		b = append(b, x[:]...)
	case 2:
		b = appendVarint(b, n<<3|2)
		p := g.bytes()
		b = appendVarint(b, uint64(len(p)))
		b = append(b, p...)
	case 3:
		b = appendVarint(b, n<<3|5)
		var x [4]byte
		r.Read(x[:])
		b = append(b, x[:]...)
	case 4:
		b = appendVarint(b, n<<3|3)
		if groupDepth < 3 {
			for i := r.Intn(3); i > 0; i-- {
				// inside a group any field number is fine (it is all unknown)
				b = append(b, g.UnknownRecord(emptyMD{d}, groupDepth+1)...)
			}
		}
		b = appendVarint(b, n<<3|4)
	}
	return b
}

// emptyMD makes every number "unused" (inside unknown groups).
type emptyMD struct{ protoreflect.MessageDescriptor }

func (emptyMD) Fields() protoreflect.FieldDescriptors { return noFields{} }

type noFields struct{ protoreflect.FieldDescriptors }

func (noFields) ByNumber(protoreflect.FieldNumber) protoreflect.FieldDescriptor { return nil }

// Msg generates a message value for descriptor d.
func (g *Gen) Msg(d MD, depth int) *Msg {
	r := g.R
	m := &Msg{D: d}
	fields := d.Fields()
	p := g.O.PFill
	if depth == 0 {
		p = math.Max(p, 0.6)
	}
	if depth > 1 {
		p = p / float64(depth)
	}
	// oneofs: pick at most one member each
	chosen := map[protoreflect.FieldNumber]bool{}
	ods := d.Oneofs()
	for i := 0; i < ods.Len(); i++ {
		od := ods.Get(i)
		if od.IsSynthetic() {
			continue
		}
		if r.Float64() < math.Max(p, 0.3) {
			chosen[od.Fields().Get(r.Intn(od.Fields().Len())).Number()] = true
		}
	}
	for i := 0; i < fields.Len(); i++ {
		fd := fields.Get(i)
		isMsg := fd.Kind() == protoreflect.MessageKind && !fd.IsMap()
		if fd.IsMap() && fd.MapValue().Kind() == protoreflect.MessageKind {
			isMsg = true
		}
		if isMsg && depth >= g.O.MaxDepth && (fd.Cardinality() != protoreflect.Required || g.O.OmitRequired) {
			continue
		}
		if inOneof(fd) {
			if !chosen[fd.Number()] {
				continue
			}
			v := g.val(fd, depth)
			if !isMsg && r.Intn(4) == 0 { // zero-valued oneof members matter
				v = Val{}
			}
			if isMsg && r.Intn(6) == 0 {
				v = Val{M: g.minimalMsg(fd.Message())}
			}
			g.cell(fd)
			m.F = append(m.F, &FVal{FD: fd, S: &v})
			continue
		}
		if r.Float64() >= p && (fd.Cardinality() != protoreflect.Required || g.O.OmitRequired) {
			continue
		}
		f := &FVal{FD: fd}
		switch {
		case fd.IsMap():
			n := 1 + r.Intn(g.O.MaxElems)
			if r.Intn(8) == 0 {
				n += 20
			}
			kfd, vfd := fd.MapKey(), fd.MapValue()
			for j := 0; j < n; j++ {
				k := g.Scalar(kfd)
				if j == 0 && r.Intn(3) == 0 {
					k = Val{} // zero key
				}
				dup := false
				for _, e := range f.M {
					if valEqualKey(kfd.Kind(), e.K, k) {
						dup = true
					}
				}
				if dup {
					continue
				}
				v := g.val(vfd, depth)
				if r.Intn(5) == 0 {
					if vfd.Kind() == protoreflect.MessageKind {
						v = Val{M: g.minimalMsg(vfd.Message())}
					} else {
						v = Val{}
					}
				}
				f.M = append(f.M, KV{K: k, V: v})
			}
		case fd.IsList():
			n := 1 + r.Intn(g.O.MaxElems)
			if g.O.LongValues {
				switch r.Intn(12) {
				case 0:
					n += 130 // packed payload >= 128 bytes for every element width
				case 1:
					// payload lengths around the 1->2 byte length-varint boundary for 8/4/1-byte elements
					n = []int{15, 16, 17, 31, 32, 33, 63, 64, 127, 128, 129}[r.Intn(11)]
				case 2:
					if r.Intn(6) == 0 {
						n = []int{2047, 2048, 4096}[r.Intn(3)] // 2->3 byte boundary
					}
				}
			}
			if isMsg && n > 4 {
				n = 1 + r.Intn(4)
			}
			for j := 0; j < n; j++ {
				v := g.val(fd, depth)
				if r.Intn(6) == 0 {
					if isMsg {
						v = Val{M: g.minimalMsg(fd.Message())}
					} else {
						v = Val{}
					}
				}
				f.L = append(f.L, v)
			}
		default:
			v := g.val(fd, depth)
			if isMsg && r.Intn(6) == 0 {
				v = Val{M: g.minimalMsg(fd.Message())}
			}
			f.S = &v
			if !populated(fd, f.S) {
				continue
			}
		}
		g.cell(fd)
		m.F = append(m.F, f)
	}
	if g.O.Unknown && r.Intn(4) == 0 {
		for i := 1 + r.Intn(3); i > 0; i-- {
			m.Unk = append(m.Unk, g.UnknownRecord(d, 0)...)
		}
		g.Cells["unknown"]++
	}
	return m
}

// minimalMsg is the empty message of d, except that required fields (embedded
// proto2 messages) are populated so that generated values are always initialised.
func (g *Gen) minimalMsg(d MD) *Msg {
	m := &Msg{D: d}
	fs := d.Fields()
	for i := 0; i < fs.Len(); i++ {
		fd := fs.Get(i)
		if fd.Cardinality() != protoreflect.Required || g.O.OmitRequired {
			continue
		}
		var v Val
		if fd.Kind() == protoreflect.MessageKind {
			v = Val{M: g.minimalMsg(fd.Message())}
		} else {
			v = g.Scalar(fd)
		}
		m.F = append(m.F, &FVal{FD: fd, S: &v})
	}
	return m
}

// hasRequiredBelow reports whether a message of type d can hold (at any depth) a message with proto2 required fields.
func hasRequiredBelow(d MD) bool {
	seen := map[protoreflect.FullName]bool{}
	var walk func(m MD) bool
	walk = func(m MD) bool {
		if seen[m.FullName()] {
			return false
		}
		seen[m.FullName()] = true
		fs := m.Fields()
		for i := 0; i < fs.Len(); i++ {
			fd := fs.Get(i)
			if fd.Cardinality() == protoreflect.Required {
				return true
			}
			var t MD
			if fd.IsMap() {
				t = fd.MapValue().Message()
			} else {
				t = fd.Message()
			}
			if t != nil && walk(t) {
				return true
			}
		}
		return false
	}
	return walk(d)
}
