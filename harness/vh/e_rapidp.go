package main

// Engine "rapidp": C18 - rapidproto generators always yield valid, well-formed messages.

import (
	"bytes"
	"flag"
	"fmt"
	cosmos_proto "github.com/cosmos/cosmos-proto"
	"io"
	"os"
	"regexp"
	"strconv"
	"strings"
	"unicode/utf8"

	"github.com/cosmos/cosmos-proto/rapidproto"
	"github.com/cosmos/cosmos-proto/zzverif/glue"
	"google.golang.org/protobuf/proto"
	"google.golang.org/protobuf/reflect/protodesc"
	"google.golang.org/protobuf/reflect/protoreflect"
	"google.golang.org/protobuf/reflect/protoregistry"
	"google.golang.org/protobuf/types/descriptorpb"
	"google.golang.org/protobuf/types/dynamicpb"
	"google.golang.org/protobuf/types/known/durationpb"
	"google.golang.org/protobuf/types/known/fieldmaskpb"
	"google.golang.org/protobuf/types/known/timestamppb"
	"pgregory.net/rapid"
)

func init() { engines["rapidp"] = engineRapidp }

var pathRE = regexp.MustCompile(`^[a-z]+([.][a-z]+){0,2}$`)

const mappedString = "MAPPED-BY-FIELD-MAPPER"

type rpOpts struct {
	noEmpty, noNil, mapper, anys bool
}

type rpWalk struct {
	rep   *Report
	tn    string
	rc    interface{}
	o     rpOpts
	types protoregistry.MessageTypeResolver
	urls  map[string]bool
	stats map[string]int
}

func (w *rpWalk) bad(key, detail string) {
	w.rep.Violate("C18", "rapidp/"+key, w.tn, detail, w.rc)
}

func (w *rpWalk) scalar(fd FD, v protoreflect.Value, path string) {
	switch fd.Kind() {
	case protoreflect.StringKind:
		if !utf8.ValidString(v.String()) {
			w.bad("invalid-utf8", fmt.Sprintf("%s: string %q is not valid UTF-8", path, v.String()))
		}
		if w.o.mapper && v.String() != mappedString {
			w.bad("field-mapper-ignored", fmt.Sprintf("%s: string %q was not produced by the field mapper", path, v.String()))
		}
		w.stats["strings"]++
	case protoreflect.BytesKind:
		if w.o.mapper && string(v.Bytes()) != mappedString {
			w.bad("field-mapper-ignored", fmt.Sprintf("%s: bytes %x were not produced by the (first) field mapper", path, v.Bytes()))
		}
	case protoreflect.EnumKind:
		w.stats["enums"]++
		if fd.Enum().Values().ByNumber(v.Enum()) == nil {
			w.bad("enum-undeclared", fmt.Sprintf("%s: enum %s has no value with number %d", path, fd.Enum().FullName(), v.Enum()))
		}
	}
}

func (w *rpWalk) msg(m protoreflect.Message, depth int, path string) {
	d := m.Descriptor()
	switch d.FullName() {
	case "google.protobuf.Timestamp":
		w.stats["timestamps"]++
		ts := &timestamppb.Timestamp{Seconds: m.Get(d.Fields().ByName("seconds")).Int(), Nanos: int32(m.Get(d.Fields().ByName("nanos")).Int())}
		if err := ts.CheckValid(); err != nil {
			w.bad("invalid-timestamp", fmt.Sprintf("%s: %v", path, err))
		}
		return
	case "google.protobuf.Duration":
		w.stats["durations"]++
		du := &durationpb.Duration{Seconds: m.Get(d.Fields().ByName("seconds")).Int(), Nanos: int32(m.Get(d.Fields().ByName("nanos")).Int())}
		if err := du.CheckValid(); err != nil {
			w.bad("invalid-duration", fmt.Sprintf("%s: %v", path, err))
		}
		return
	case "google.protobuf.FieldMask":
		w.stats["fieldmasks"]++
		l := m.Get(d.Fields().ByName("paths")).List()
		// 1..5 paths are drawn per generation; a map value generated again for a repeated key accumulates
		if l.Len() < 1 {
			w.bad("fieldmask-paths-dropped", fmt.Sprintf("%s: FieldMask carries no paths although 1..5 were drawn for it", path))
		}
		for i := 0; i < l.Len(); i++ {
			if !pathRE.MatchString(l.Get(i).String()) {
				w.bad("fieldmask-path-shape", fmt.Sprintf("%s: path %q", path, l.Get(i).String()))
			}
		}
		return
	case "google.protobuf.Any":
		w.stats["anys"]++
		if !w.o.anys {
			// no AnyTypeURLs configured: the generator has nothing to put into an Any; outside the claim
			return
		}
		url := m.Get(d.Fields().ByName("type_url")).String()
		val := m.Get(d.Fields().ByName("value")).Bytes()
		if !w.urls[url] {
			w.bad("any-url-not-offered", fmt.Sprintf("%s: type URL %q is not one of the configured AnyTypeURLs", path, url))
			return
		}
		mt, err := w.types.FindMessageByURL(url)
		if err != nil {
			w.bad("any-unresolvable", fmt.Sprintf("%s: %q: %v", path, url, err))
			return
		}
		inner := mt.New()
		if err := proto.Unmarshal(val, inner.Interface()); err != nil {
			w.bad("any-undecodable", fmt.Sprintf("%s: value does not decode as %s: %v", path, url, err))
			return
		}
		if u := inner.GetUnknown(); len(u) > 0 {
			w.bad("any-undecodable", fmt.Sprintf("%s: value decodes as %s only with unknown fields %x: it was generated for another message type", path, url, u))
			return
		}
		w.msg(inner, depth+1, path+".(any)")
		return
	}
	fs := d.Fields()
	for i := 0; i < fs.Len(); i++ {
		fd := fs.Get(i)
		p := path + "." + string(fd.Name())
		has := m.Has(fd)
		switch {
		case fd.IsList():
			l := m.Get(fd).List()
			if w.o.noEmpty && fd.Kind() != protoreflect.MessageKind && fd.Kind() != protoreflect.GroupKind && depth <= 10 && l.Len() == 0 {
				w.bad("noemptylists-ignored", fmt.Sprintf("%s: empty scalar list although NoEmptyLists is set", p))
			}
			w.stats["lists"]++
			for j := 0; j < l.Len(); j++ {
				if isMsgKind(fd.Kind()) {
					w.msg(l.Get(j).Message(), depth+1, p)
				} else {
					w.scalar(fd, l.Get(j), p)
				}
			}
		case fd.IsMap():
			m.Get(fd).Map().Range(func(k protoreflect.MapKey, v protoreflect.Value) bool {
				w.scalar(fd.MapKey(), k.Value(), p+"(key)")
				if isMsgKind(fd.MapValue().Kind()) {
					w.msg(v.Message(), depth+1, p)
				} else {
					w.scalar(fd.MapValue(), v, p)
				}
				return true
			})
		case fd.Kind() == protoreflect.GroupKind:
			if has {
				w.msg(m.Get(fd).Message(), depth+1, p)
			}
		case fd.Kind() == protoreflect.MessageKind:
			if has {
				w.msg(m.Get(fd).Message(), depth+1, p)
			} else if w.o.noNil && depth < 9 && !inOneof(fd) { // members of real oneofs excepted; proto3 optional (synthetic oneof) is a plain field
				isAny := fd.Message().FullName() == "google.protobuf.Any"
				if !isAny || w.o.anys {
					w.bad("disallownil-ignored", fmt.Sprintf("%s: message field unset at depth %d although DisallowNilMessages is set", p, depth))
				}
			}
		default:
			if has || fd.ContainingOneof() != nil {
				if has {
					w.scalar(fd, m.Get(fd), p)
				}
			}
		}
	}
}

func engineRapidp(rep *Report) {
	openProgress()
	subs := subjectsForShard()
	n := perType(3, 40)
	only := onlyIndex()
	skip := map[string]bool{}
	if sk, ok := parseArg("skip"); ok {
		for _, x := range strings.Split(sk, ";") {
			skip[x] = true
		}
	}
	// Any payload types: two small checked-in types
	var anyMsgs []proto.Message
	for _, nm := range []string{"B", "goproto.proto.test3.ForeignMessage", "vf.wkt.Box"} {
		if s := glue.Lookup(protoreflect.FullName(nm)); s != nil {
			anyMsgs = append(anyMsgs, s.Zero)
		}
	}
	var boxZero proto.Message
	if b := glue.Lookup("vf.wkt.Box"); b != nil {
		boxZero = b.Zero
	}
	for ti, s := range subs {
		tn := string(s.FullName)
		rep.Types = append(rep.Types, tn)
		d := s.Zero.ProtoReflect().Descriptor()
		recursive := reachesCycle(d)
		for oi := 0; oi < 17; oi++ {
			o := rpOpts{noEmpty: oi&1 != 0, noNil: oi&2 != 0, mapper: oi&4 != 0, anys: oi&8 != 0}
			selfAny := oi == 16 // the only payload type offered recurses through an Any itself, with DisallowNilMessages
			if selfAny {
				o = rpOpts{noNil: true, anys: true}
				if boxZero == nil || len(acceptedInterfaces(d)) > 0 || !reachesAny(d) {
					continue
				}
			}
			if est := expectedInstances(d, o.noNil, o.noEmpty); est > 20000 {
				// the generator expands recursive types down to its depth limit of 10; for types whose
				// recursion branches (lists/maps of the type itself, or DisallowNilMessages) one draw is
				// finite but exponential (hours). Decided from the schema, not from a timeout.
				rep.Count("C18", "skipped/expected-draw-size-above-budget", 1)
				_ = recursive
				continue
			}
			gopts := rapidproto.GeneratorOptions{NoEmptyLists: o.noEmpty, DisallowNilMessages: o.noNil, Resolver: protoregistry.GlobalTypes}
			urls := map[string]bool{}
			if selfAny {
				gopts = gopts.WithAnyTypes(boxZero)
				urls["/vf.wkt.Box"] = true
			} else if o.anys {
				gopts = gopts.WithAnyTypes(anyMsgs...)
				for _, u := range gopts.AnyTypeURLs {
					urls[u] = true
				}
				// Any fields marked (cosmos_proto.accepts_interface) need an implementation hint: configuration, not behaviour
				for _, iface := range acceptedInterfaces(d) {
					gopts = gopts.WithInterfaceHint(iface, anyMsgs[0])
				}
			}
			if *flagTier != "thorough" && int(hash64([]byte(tn))%16+uint64(oi))%16 >= 6 && oi != 0 && !selfAny {
				continue // quick tier: 6-7 of the 16 option combinations per type (which ones depends on the type)
			}
			if o.mapper {
				// two mappers: the first one only handles bytes and declines everything else, the second handles strings
				gopts.FieldMaps = []rapidproto.FieldMapper{
					func(t *rapid.T, fd protoreflect.FieldDescriptor, name string) (protoreflect.Value, bool) {
						if fd.Kind() == protoreflect.BytesKind {
							return protoreflect.ValueOfBytes([]byte(mappedString)), true
						}
						return protoreflect.Value{}, false
					},
					func(t *rapid.T, fd protoreflect.FieldDescriptor, name string) (protoreflect.Value, bool) {
						if fd.Kind() == protoreflect.StringKind {
							return protoreflect.ValueOfString(mappedString), true
						}
						return protoreflect.Value{}, false
					}}
			}
			// both the generated type and a dynamic message of the same descriptor
			for variant := 0; variant < 2; variant++ {
				var draw func(seed int) proto.Message
				if variant == 0 {
					gen := rapidproto.MessageGenerator[proto.Message](newOf(s.Zero), gopts)
					draw = func(seed int) proto.Message { return gen.Example(seed) }
				} else {
					if oi%4 != 0 {
						continue
					}
					gen := rapidproto.MessageGenerator[proto.Message](dynamicpb.NewMessage(d), gopts)
					draw = func(seed int) proto.Message { return gen.Example(seed) }
				}
				var prev proto.Message
				var prevBytes []byte
				for i := 0; i < n; i++ {
					ci := (oi*2+variant)*n + i
					if only >= 0 && ci != only {
						continue
					}
					if skip[tn+":"+strconv.Itoa(ci)] {
						continue
					}
					seed := int(caseSeed(*flagSeed, tn, i, fmt.Sprintf("rapidp%d", oi)) & 0x7fffffff)
					setProgress(ti, ci, 0)
					rc := map[string]interface{}{"engine": "rapidp", "type": tn, "seed": *flagSeed, "index": ci, "options": fmt.Sprintf("%+v", o), "rapid_seed": seed, "dynamic": variant == 1}
					var m proto.Message
					pan, pmsg := safely(func() { m = draw(seed) })
					rep.Eval("C18", []byte(fmt.Sprintf("%s|%d|%d|%d", tn, oi, variant, seed)), true)
					rep.Count("C18", fmt.Sprintf("draws/options=%d", oi), 1)
					if pan {
						rep.Violate("C18", "rapidp/draw-fails", tn, fmt.Sprintf("options %+v seed %d: %s", o, seed, pmsg), rc)
						continue
					}
					w := &rpWalk{rep: rep, tn: tn, rc: rc, o: o, types: protoregistry.GlobalTypes, urls: urls, stats: map[string]int{}}
					pan, pmsg = safely(func() { w.msg(m.ProtoReflect(), 0, tn) })
					if pan {
						rep.Violate("C18", "rapidp/walk-panics", tn, pmsg, rc)
						continue
					}
					for k, c := range w.stats {
						rep.Count("C18", "seen/"+k, int64(c))
					}
					// the reference marshaller accepts it and it round-trips
					ref := dynamicpb.NewMessage(d)
					var b []byte
					var err error
					pan, pmsg = safely(func() {
						b, err = proto.Marshal(m)
						if err == nil {
							err = proto.Unmarshal(b, ref)
						}
					})
					if pan || err != nil {
						rep.Violate("C18", "rapidp/marshal-fails", tn, fmt.Sprintf("err=%v %s", err, pmsg), rc)
						continue
					}
					rb, err := detOpts.Marshal(ref) // the reference marshaller (validates UTF-8)
					if err != nil {
						rep.Violate("C18", "rapidp/reference-marshal-rejects", tn, err.Error(), rc)
						continue
					}
					// a message yielded earlier by the same generator stays what it was
					if prev != nil {
						if prev == m {
							rep.Violate("C18", "rapidp/draws-share-a-message", tn, "two draws from one generator returned the same message object", rc)
						} else if pb, e := detOpts.Marshal(prev); e != nil || !bytes.Equal(pb, prevBytes) {
							rep.Violate("C18", "rapidp/draws-share-a-message", tn, "the message yielded by the previous draw changed when the next one was drawn", rc)
						}
						rep.Count("C18", "earlier-draw-unchanged-checks", 1)
					}
					prev, prevBytes = m, nil
					if pb, e := detOpts.Marshal(m); e == nil {
						prevBytes = pb
					} else {
						prev = nil
					}
					back := dynamicpb.NewMessage(d)
					if err := proto.Unmarshal(rb, back); err != nil || !proto.Equal(back, ref) {
						rep.Violate("C18", "rapidp/roundtrip", tn, fmt.Sprintf("drawn message does not round-trip: %v", err), rc)
					}
					// what came out of the wire is what was drawn (read through reflection, field by field)
					if drawnIR, refIR := SpecEncode(quietF32(Canon(ReflToIR(m.ProtoReflect())))), SpecEncode(quietF32(Canon(ReflToIR(ref)))); !bytes.Equal(drawnIR, refIR) {
						rep.Violate("C18", "rapidp/roundtrip-loses-data", tn, "the drawn message, encoded and decoded by the reference, is another value: "+firstDiff(refIR, drawnIR), rc)
					}
					if i == 0 && oi == 0 && variant == 0 && ti < 2 {
						rep.Sample("C18", map[string]interface{}{"type": tn, "options": fmt.Sprintf("%+v", o), "rapid_seed": seed, "encoding_hex": hx(rb)})
					}
				}
			}
		}
	}
	if si, _ := shard(); si == 0 && only < 0 {
		rapidpOptionalMessage(rep)
		rapidpGroups(rep)
		rapidpDrawLog(rep)
		rapidpTwoResolvers(rep)
	}
	setProgress(-1, -1, 0)
}

// rapidpOptionalMessage: a dynamic type with proto3 optional message fields (synthetic oneofs): under
// DisallowNilMessages they must be populated like any other message field.
func rapidpOptionalMessage(rep *Report) {
	opt := func(name string, num int32, typ string, idx int32) *descriptorpb.FieldDescriptorProto {
		return &descriptorpb.FieldDescriptorProto{Name: proto.String(name), Number: proto.Int32(num), Label: descriptorpb.FieldDescriptorProto_LABEL_OPTIONAL.Enum(),
			Type: descriptorpb.FieldDescriptorProto_TYPE_MESSAGE.Enum(), TypeName: proto.String(typ), Proto3Optional: proto.Bool(true), OneofIndex: proto.Int32(idx)}
	}
	fdp := &descriptorpb.FileDescriptorProto{Name: proto.String("vfdyn/opt.proto"), Package: proto.String("vf.dynopt"), Syntax: proto.String("proto3"),
		MessageType: []*descriptorpb.DescriptorProto{
			{Name: proto.String("Leaf"), Field: []*descriptorpb.FieldDescriptorProto{{Name: proto.String("v"), Number: proto.Int32(1), Label: descriptorpb.FieldDescriptorProto_LABEL_OPTIONAL.Enum(), Type: descriptorpb.FieldDescriptorProto_TYPE_STRING.Enum()}}},
			{Name: proto.String("Plain"), Field: []*descriptorpb.FieldDescriptorProto{opt("leaf", 1, ".vf.dynopt.Leaf", 0)}, OneofDecl: []*descriptorpb.OneofDescriptorProto{{Name: proto.String("_leaf")}}},
			{Name: proto.String("Holder"), Field: []*descriptorpb.FieldDescriptorProto{opt("leaf", 1, ".vf.dynopt.Leaf", 0), opt("plain", 2, ".vf.dynopt.Plain", 1),
				{Name: proto.String("n"), Number: proto.Int32(3), Label: descriptorpb.FieldDescriptorProto_LABEL_OPTIONAL.Enum(), Type: descriptorpb.FieldDescriptorProto_TYPE_INT32.Enum()}},
				OneofDecl: []*descriptorpb.OneofDescriptorProto{{Name: proto.String("_leaf")}, {Name: proto.String("_plain")}}},
		}}
	fd, err := protodesc.NewFile(fdp, nil)
	if err != nil {
		rep.Notes = append(rep.Notes, "optional-message descriptor: "+err.Error())
		return
	}
	md := fd.Messages().ByName("Holder")
	gen := rapidproto.MessageGenerator[proto.Message](dynamicpb.NewMessage(md), rapidproto.GeneratorOptions{DisallowNilMessages: true})
	for i := 0; i < 200; i++ {
		var m proto.Message
		pan, pmsg := safely(func() { m = gen.Example(i + 1) })
		rep.Eval("C18", []byte(fmt.Sprintf("dynopt|%d", i)), true)
		if pan {
			rep.Violate("C18", "rapidp/draw-fails", "vf.dynopt.Holder", pmsg, nil)
			return
		}
		w := &rpWalk{rep: rep, tn: "vf.dynopt.Holder", rc: map[string]interface{}{"engine": "rapidp", "type": "vf.dynopt.Holder", "rapid_seed": i + 1}, o: rpOpts{noNil: true}, types: protoregistry.GlobalTypes, urls: map[string]bool{}, stats: map[string]int{}}
		w.msg(m.ProtoReflect(), 0, "vf.dynopt.Holder")
	}
	rep.Count("C18", "draws/proto3-optional-message-dynamic-type", 200)
}

func isMsgKind(k protoreflect.Kind) bool {
	return k == protoreflect.MessageKind || k == protoreflect.GroupKind
}

// rapidpDynamicDraws draws n messages of a dynamic type under every option set and applies the walker and the
// reference round trip.
func rapidpDynamicDraws(rep *Report, md MD, n int, counter string) {
	tn := string(md.FullName())
	for oi := 0; oi < 4; oi++ {
		o := rpOpts{noEmpty: oi&1 != 0, noNil: oi&2 != 0}
		gen := rapidproto.MessageGenerator[proto.Message](dynamicpb.NewMessage(md), rapidproto.GeneratorOptions{NoEmptyLists: o.noEmpty, DisallowNilMessages: o.noNil})
		for i := 0; i < n; i++ {
			seed := int(caseSeed(*flagSeed, tn, i, fmt.Sprintf("rapidp-dyn%d", oi)) & 0x7fffffff)
			rc := map[string]interface{}{"engine": "rapidp", "type": tn, "seed": *flagSeed, "options": fmt.Sprintf("%+v", o), "rapid_seed": seed, "dynamic": true}
			var m proto.Message
			pan, pmsg := safely(func() { m = gen.Example(seed) })
			rep.Eval("C18", []byte(fmt.Sprintf("%s|%d|%d", tn, oi, seed)), true)
			if pan {
				rep.Violate("C18", "rapidp/draw-fails", tn, fmt.Sprintf("options %+v seed %d: %s", o, seed, pmsg), rc)
				return
			}
			w := &rpWalk{rep: rep, tn: tn, rc: rc, o: o, types: protoregistry.GlobalTypes, urls: map[string]bool{}, stats: map[string]int{}}
			pan, pmsg = safely(func() { w.msg(m.ProtoReflect(), 0, tn) })
			if pan {
				rep.Violate("C18", "rapidp/walk-panics", tn, pmsg, rc)
				continue
			}
			for k, c := range w.stats {
				rep.Count("C18", "seen/"+k, int64(c))
			}
			b, err := detOpts.Marshal(m)
			back := dynamicpb.NewMessage(md)
			if err == nil {
				err = proto.Unmarshal(b, back)
			}
			if err != nil || !proto.Equal(back, m) {
				rep.Violate("C18", "rapidp/roundtrip", tn, fmt.Sprintf("drawn message is rejected by the reference marshaller or does not round-trip: %v", err), rc)
			}
			rep.Count("C18", counter, 1)
		}
	}
}

// rapidpGroups: a proto2 dynamic type with an optional and a repeated group ("every message type").
func rapidpGroups(rep *Report) {
	lbl := func(rep bool) *descriptorpb.FieldDescriptorProto_Label {
		if rep {
			return descriptorpb.FieldDescriptorProto_LABEL_REPEATED.Enum()
		}
		return descriptorpb.FieldDescriptorProto_LABEL_OPTIONAL.Enum()
	}
	f := func(name string, num int32, t descriptorpb.FieldDescriptorProto_Type, typ string, repeated bool) *descriptorpb.FieldDescriptorProto {
		fd := &descriptorpb.FieldDescriptorProto{Name: proto.String(name), Number: proto.Int32(num), Label: lbl(repeated), Type: t.Enum()}
		if typ != "" {
			fd.TypeName = proto.String(typ)
		}
		return fd
	}
	const (
		tGroup = descriptorpb.FieldDescriptorProto_TYPE_GROUP
		tMsg   = descriptorpb.FieldDescriptorProto_TYPE_MESSAGE
		tStr   = descriptorpb.FieldDescriptorProto_TYPE_STRING
		tI32   = descriptorpb.FieldDescriptorProto_TYPE_INT32
		tI64   = descriptorpb.FieldDescriptorProto_TYPE_SINT64
	)
	fdp := &descriptorpb.FileDescriptorProto{Name: proto.String("vfdyn/groups.proto"), Package: proto.String("vf.dyngrp"), Syntax: proto.String("proto2"),
		MessageType: []*descriptorpb.DescriptorProto{
			{Name: proto.String("Leaf"), Field: []*descriptorpb.FieldDescriptorProto{f("v", 1, tStr, "", false), f("r", 2, tI32, "", true)}},
			{Name: proto.String("Holder"),
				Field: []*descriptorpb.FieldDescriptorProto{
					f("og", 1, tGroup, ".vf.dyngrp.Holder.Og", false),
					f("rg", 2, tGroup, ".vf.dyngrp.Holder.Rg", true),
					f("leaf", 3, tMsg, ".vf.dyngrp.Leaf", false),
					f("n", 4, tI64, "", false)},
				NestedType: []*descriptorpb.DescriptorProto{
					{Name: proto.String("Og"), Field: []*descriptorpb.FieldDescriptorProto{f("s", 1, tStr, "", false), f("nums", 2, tI32, "", true)}},
					{Name: proto.String("Rg"), Field: []*descriptorpb.FieldDescriptorProto{f("v", 1, tI64, "", false), f("leaf", 2, tMsg, ".vf.dyngrp.Leaf", false), f("names", 3, tStr, "", true)}},
				}},
		}}
	fd, err := protodesc.NewFile(fdp, nil)
	if err != nil {
		rep.Inconclusive("C18", "dynamic-group-descriptor-rejected")
		rep.Notes = append(rep.Notes, "group descriptor: "+err.Error())
		return
	}
	rapidpDynamicDraws(rep, fd.Messages().ByName("Holder"), 60, "draws/proto2-groups-dynamic-type")
}

var drawPathsRE = regexp.MustCompile(`\[rapid\] draw paths: \[\]string\{(.*)\}\s*$`)
var quotedRE = regexp.MustCompile(`"([^"]*)"`)

// captureStdout runs f with os.Stdout redirected into a pipe and returns what was written.
func captureStdout(f func()) string {
	old := os.Stdout
	r, w, err := os.Pipe()
	if err != nil {
		f()
		return ""
	}
	os.Stdout = w
	done := make(chan string, 1)
	go func() { b, _ := io.ReadAll(r); done <- string(b) }()
	func() {
		defer func() { os.Stdout = old; w.Close() }()
		f()
	}()
	out := <-done
	r.Close()
	return out
}

// rapidpDrawLog: "FieldMask fields carry the paths that were drawn for them".  What was drawn is observed through
// rapid's own eager draw log (-rapid.log: every Draw call prints its label and value), not re-derived: the paths of
// the FieldMask values in generation order (fields in declaration order, list elements in order) must be the paths
// of the last draws labelled "paths", element for element.
func rapidpDrawLog(rep *Report) {
	if flag.Lookup("rapid.log") == nil {
		rep.Inconclusive("C18", "rapid-draw-log-unavailable")
		return
	}
	fm := func(name string, num int32, repeated bool) *descriptorpb.FieldDescriptorProto {
		l := descriptorpb.FieldDescriptorProto_LABEL_OPTIONAL.Enum()
		if repeated {
			l = descriptorpb.FieldDescriptorProto_LABEL_REPEATED.Enum()
		}
		return &descriptorpb.FieldDescriptorProto{Name: proto.String(name), Number: proto.Int32(num), Label: l, Type: descriptorpb.FieldDescriptorProto_TYPE_MESSAGE.Enum(), TypeName: proto.String(".google.protobuf.FieldMask")}
	}
	fdp := &descriptorpb.FileDescriptorProto{Name: proto.String("vfdyn/masks.proto"), Package: proto.String("vf.dynmask"), Syntax: proto.String("proto3"),
		Dependency: []string{"google/protobuf/field_mask.proto"},
		MessageType: []*descriptorpb.DescriptorProto{
			{Name: proto.String("Masks"), Field: []*descriptorpb.FieldDescriptorProto{fm("one", 1, false),
				{Name: proto.String("s"), Number: proto.Int32(2), Label: descriptorpb.FieldDescriptorProto_LABEL_OPTIONAL.Enum(), Type: descriptorpb.FieldDescriptorProto_TYPE_STRING.Enum()},
				fm("many", 3, true), fm("last", 4, false)}},
		}}
	fd, err := protodesc.NewFile(fdp, protoregistry.GlobalFiles)
	if err != nil {
		rep.Inconclusive("C18", "dynamic-mask-descriptor-rejected")
		rep.Notes = append(rep.Notes, "mask descriptor: "+err.Error())
		return
	}
	masksMD := fd.Messages().ByName("Masks")
	paths := func(m protoreflect.Message) []string {
		l := m.Get(m.Descriptor().Fields().ByName("paths")).List()
		out := []string{}
		for i := 0; i < l.Len(); i++ {
			out = append(out, l.Get(i).String())
		}
		return out
	}
	carried := func(m protoreflect.Message) [][]string {
		if m.Descriptor().FullName() == "google.protobuf.FieldMask" {
			return [][]string{paths(m)}
		}
		var out [][]string
		fs := m.Descriptor().Fields()
		for i := 0; i < fs.Len(); i++ {
			f := fs.Get(i)
			switch {
			case f.IsList():
				l := m.Get(f).List()
				for j := 0; j < l.Len(); j++ {
					out = append(out, paths(l.Get(j).Message()))
				}
			case f.Kind() == protoreflect.MessageKind && m.Has(f):
				out = append(out, paths(m.Get(f).Message()))
			}
		}
		return out
	}
	type sub struct {
		name string
		zero func() proto.Message
		n    int
	}
	subs := []sub{
		{"google.protobuf.FieldMask", func() proto.Message { return &fieldmaskpb.FieldMask{} }, perType(1500, 12000)},
		{"google.protobuf.FieldMask(dynamic)", func() proto.Message {
			return dynamicpb.NewMessage((&fieldmaskpb.FieldMask{}).ProtoReflect().Descriptor())
		}, perType(300, 3000)},
		{"vf.dynmask.Masks", func() proto.Message { return dynamicpb.NewMessage(masksMD) }, perType(400, 4000)},
	}
	if err := flag.Set("rapid.log", "true"); err != nil {
		rep.Inconclusive("C18", "rapid-draw-log-unavailable")
		return
	}
	defer flag.Set("rapid.log", "false")
	for _, s := range subs {
		for oi := 0; oi < 2; oi++ {
			gopts := rapidproto.GeneratorOptions{NoEmptyLists: oi == 1, DisallowNilMessages: oi == 1}
			gen := rapidproto.MessageGenerator[proto.Message](s.zero(), gopts)
			for i := 0; i < s.n; i++ {
				seed := int(caseSeed(*flagSeed, s.name, i, fmt.Sprintf("rapidp-drawlog%d", oi)) & 0x7fffffff)
				rc := map[string]interface{}{"engine": "rapidp", "type": s.name, "seed": *flagSeed, "rapid_seed": seed, "options": fmt.Sprintf("%+v", gopts)}
				var m proto.Message
				var pan bool
				var pmsg string
				logText := captureStdout(func() { pan, pmsg = safely(func() { m = gen.Example(seed) }) })
				rep.Eval("C18", []byte(fmt.Sprintf("drawlog|%s|%d|%d", s.name, oi, seed)), true)
				if pan {
					rep.Violate("C18", "rapidp/draw-fails", s.name, pmsg, rc)
					break
				}
				var drawn [][]string
				for _, line := range strings.Split(logText, "\n") {
					if mm := drawPathsRE.FindStringSubmatch(line); mm != nil {
						ps := []string{}
						for _, q := range quotedRE.FindAllStringSubmatch(mm[1], -1) {
							ps = append(ps, q[1])
						}
						drawn = append(drawn, ps)
					}
				}
				got := carried(m.ProtoReflect())
				rep.Count("C18", "drawlog/fieldmask-draws-observed", int64(len(drawn)))
				rep.Count("C18", "drawlog/fieldmasks-compared", int64(len(got)))
				if len(drawn) < len(got) {
					if len(drawn) == 0 {
						rep.Inconclusive("C18", "rapid-draw-log-empty")
						return
					}
					rep.Violate("C18", "rapidp/fieldmask-paths-not-the-drawn-ones", s.name, fmt.Sprintf("%d FieldMask values but only %d draws labelled paths", len(got), len(drawn)), rc)
					continue
				}
				drawn = drawn[len(drawn)-len(got):] // earlier entries belong to rejected attempts of the same Example call
				for k := range got {
					if strings.Join(got[k], "\x00") != strings.Join(drawn[k], "\x00") {
						rep.Violate("C18", "rapidp/fieldmask-paths-not-the-drawn-ones", s.name, fmt.Sprintf("FieldMask #%d carries %q, drawn for it: %q", k, got[k], drawn[k]), rc)
						break
					}
					dup := map[string]bool{}
					for _, p := range drawn[k] {
						if dup[p] {
							rep.Count("C18", "drawlog/draws-with-a-repeated-path", 1)
							break
						}
						dup[p] = true
					}
				}
			}
		}
	}
}

// reachesCycle reports whether the message graph reachable from d contains a cycle.
func reachesCycle(d MD) bool {
	state := map[protoreflect.FullName]int{} // 1 = on stack, 2 = done
	var visit func(m MD) bool
	visit = func(m MD) bool {
		switch state[m.FullName()] {
		case 1:
			return true
		case 2:
			return false
		}
		state[m.FullName()] = 1
		fs := m.Fields()
		for i := 0; i < fs.Len(); i++ {
			fd := fs.Get(i)
			var t MD
			if fd.IsMap() {
				if fd.MapValue().Kind() == protoreflect.MessageKind {
					t = fd.MapValue().Message()
				}
			} else if fd.Kind() == protoreflect.MessageKind {
				t = fd.Message()
			}
			if t != nil && visit(t) {
				return true
			}
		}
		state[m.FullName()] = 2
		return false
	}
	return visit(d)
}

// acceptedInterfaces lists the (cosmos_proto.accepts_interface) values on Any fields reachable from d.
func acceptedInterfaces(d MD) []string {
	seen := map[protoreflect.FullName]bool{}
	var out []string
	var visit func(m MD)
	visit = func(m MD) {
		if seen[m.FullName()] {
			return
		}
		seen[m.FullName()] = true
		fs := m.Fields()
		for i := 0; i < fs.Len(); i++ {
			fd := fs.Get(i)
			if o := fd.Options(); o != nil && proto.HasExtension(o, cosmos_proto.E_AcceptsInterface) {
				out = append(out, proto.GetExtension(o, cosmos_proto.E_AcceptsInterface).(string))
			}
			if fd.IsMap() {
				if fd.MapValue().Kind() == protoreflect.MessageKind {
					visit(fd.MapValue().Message())
				}
			} else if fd.Kind() == protoreflect.MessageKind {
				visit(fd.Message())
			}
		}
	}
	visit(d)
	return out
}

// expectedInstances estimates how many message instances one draw creates for
// descriptor d (expectation under the generator's own distribution: a message
// field is populated with probability 1/2 unless DisallowNilMessages, lists have
// 0..10 (1..10) elements, maps 0..10 entries, recursion stops below depth 10).
func expectedInstances(d MD, noNil, noEmpty bool) float64 {
	type key struct {
		n protoreflect.FullName
		d int
	}
	memo := map[key]float64{}
	var e func(m MD, depth int) float64
	e = func(m MD, depth int) float64 {
		if depth > 10 {
			return 0
		}
		switch m.FullName() {
		case "google.protobuf.Timestamp", "google.protobuf.Duration", "google.protobuf.FieldMask":
			return 1
		case "google.protobuf.Any":
			return 3
		}
		k := key{m.FullName(), depth}
		if v, ok := memo[k]; ok {
			return v
		}
		memo[k] = 1
		total := 1.0
		p := 0.5
		if noNil {
			p = 1
		}
		fs := m.Fields()
		for i := 0; i < fs.Len(); i++ {
			fd := fs.Get(i)
			switch {
			case fd.IsMap():
				if fd.MapValue().Kind() == protoreflect.MessageKind {
					total += p * 5 * e(fd.MapValue().Message(), depth+1)
				}
			case fd.IsList():
				if fd.Kind() == protoreflect.MessageKind {
					n := 5.0
					if noEmpty {
						n = 5.5
					}
					total += p * n * e(fd.Message(), depth+1)
				}
			case fd.Kind() == protoreflect.MessageKind:
				total += p * e(fd.Message(), depth+1)
			}
			if total > 1e9 {
				break
			}
		}
		memo[k] = total
		return total
	}
	return e(d, 0)
}

// reachesAny reports whether a google.protobuf.Any field is reachable from d.
func reachesAny(d MD) bool {
	seen := map[protoreflect.FullName]bool{}
	var visit func(m MD) bool
	visit = func(m MD) bool {
		if m.FullName() == "google.protobuf.Any" {
			return true
		}
		if seen[m.FullName()] {
			return false
		}
		seen[m.FullName()] = true
		fs := m.Fields()
		for i := 0; i < fs.Len(); i++ {
			fd := fs.Get(i)
			var t MD
			if fd.IsMap() {
				if fd.MapValue().Kind() == protoreflect.MessageKind {
					t = fd.MapValue().Message()
				}
			} else if fd.Kind() == protoreflect.MessageKind {
				t = fd.Message()
			}
			if t != nil && visit(t) {
				return true
			}
		}
		return false
	}
	return visit(d)
}

// rapidpTwoResolvers: two option sets in one process whose resolvers map the same type URL to different message
// types: every Any is built for the type its own resolver names.
func rapidpTwoResolvers(rep *Report) {
	mk := func(rev int) (*protoregistry.Types, MD) {
		k := descriptorpb.FieldDescriptorProto_TYPE_STRING
		if rev == 2 {
			k = descriptorpb.FieldDescriptorProto_TYPE_FIXED64
		}
		fdp := &descriptorpb.FileDescriptorProto{Name: proto.String(fmt.Sprintf("vfdyn/any%d.proto", rev)), Package: proto.String("vf.dynany"), Syntax: proto.String("proto3"),
			Dependency: []string{"google/protobuf/any.proto"},
			MessageType: []*descriptorpb.DescriptorProto{
				{Name: proto.String("Payload"), Field: []*descriptorpb.FieldDescriptorProto{
					{Name: proto.String("v"), Number: proto.Int32(1), Label: descriptorpb.FieldDescriptorProto_LABEL_OPTIONAL.Enum(), Type: k.Enum()},
					{Name: proto.String("w"), Number: proto.Int32(int32(1 + rev)), Label: descriptorpb.FieldDescriptorProto_LABEL_REPEATED.Enum(), Type: descriptorpb.FieldDescriptorProto_TYPE_SINT32.Enum()}}},
				{Name: proto.String("Carrier"), Field: []*descriptorpb.FieldDescriptorProto{
					{Name: proto.String("one"), Number: proto.Int32(1), Label: descriptorpb.FieldDescriptorProto_LABEL_OPTIONAL.Enum(), Type: descriptorpb.FieldDescriptorProto_TYPE_MESSAGE.Enum(), TypeName: proto.String(".google.protobuf.Any")},
					{Name: proto.String("many"), Number: proto.Int32(2), Label: descriptorpb.FieldDescriptorProto_LABEL_REPEATED.Enum(), Type: descriptorpb.FieldDescriptorProto_TYPE_MESSAGE.Enum(), TypeName: proto.String(".google.protobuf.Any")}}},
			}}
		fd, err := protodesc.NewFile(fdp, protoregistry.GlobalFiles)
		if err != nil {
			rep.Notes = append(rep.Notes, "two-resolver descriptor: "+err.Error())
			return nil, nil
		}
		ts := new(protoregistry.Types)
		_ = ts.RegisterMessage(dynamicpb.NewMessageType(fd.Messages().ByName("Payload")))
		return ts, fd.Messages().ByName("Carrier")
	}
	for round := 0; round < 2; round++ {
		for rev := 1; rev <= 2; rev++ {
			ts, carrier := mk(rev)
			if ts == nil {
				rep.Inconclusive("C18", "two-resolver-descriptor-rejected")
				return
			}
			gopts := rapidproto.GeneratorOptions{Resolver: ts, AnyTypeURLs: []string{"/vf.dynany.Payload"}, DisallowNilMessages: true, NoEmptyLists: true}
			gen := rapidproto.MessageGenerator[proto.Message](dynamicpb.NewMessage(carrier), gopts)
			for i := 0; i < 40; i++ {
				seed := int(caseSeed(*flagSeed, "vf.dynany.Carrier", i, fmt.Sprintf("rapidp-res%d-%d", rev, round)) & 0x7fffffff)
				rc := map[string]interface{}{"engine": "rapidp", "type": "vf.dynany.Carrier", "seed": *flagSeed, "rapid_seed": seed, "resolver_revision": rev}
				var m proto.Message
				pan, pmsg := safely(func() { m = gen.Example(seed) })
				rep.Eval("C18", []byte(fmt.Sprintf("two-resolvers|%d|%d|%d", rev, round, seed)), true)
				rep.Count("C18", "draws/two-resolvers-same-url", 1)
				if pan {
					rep.Violate("C18", "rapidp/draw-fails", "vf.dynany.Carrier", pmsg, rc)
					return
				}
				w := &rpWalk{rep: rep, tn: "vf.dynany.Carrier", rc: rc, o: rpOpts{noNil: true, noEmpty: true, anys: true}, types: ts, urls: map[string]bool{"/vf.dynany.Payload": true}, stats: map[string]int{}}
				w.msg(m.ProtoReflect(), 0, "vf.dynany.Carrier")
			}
		}
	}
}
