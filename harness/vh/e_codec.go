package main

// Engine "codec": C01 (round trip), C02 (deterministic bytes = reference),
// C04 (Size / MarshalAppend), C05 (determinism is a pure function of the value).

import (
	"bytes"
	"encoding/hex"
	"fmt"
	"github.com/cosmos/cosmos-proto/anyutil"
	"google.golang.org/protobuf/types/known/anypb"
	"math/rand"
	"reflect"
	"sort"
	"strconv"
	"strings"

	"github.com/cosmos/cosmos-proto/zzverif/glue"
	"google.golang.org/protobuf/proto"
	"google.golang.org/protobuf/runtime/protoiface"
	"google.golang.org/protobuf/types/dynamicpb"
)

func init() { engines["codec"] = engineCodec }

var (
	detOpts   = proto.MarshalOptions{Deterministic: true}
	plainOpts = proto.MarshalOptions{}
)

type replayCase struct {
	Engine string `json:"engine"`
	Type   string `json:"type"`
	Seed   int64  `json:"seed"`
	Index  int    `json:"index"`
	Salt   string `json:"salt,omitempty"`
	Value  string `json:"value_hex,omitempty"` // reference encoding of the value / the input stream
	Note   string `json:"note,omitempty"`
}

func onlyIndex() int {
	for _, kv := range strings.Split(*flagArg, ",") {
		if strings.HasPrefix(kv, "only=") {
			n, _ := strconv.Atoi(kv[5:])
			return n
		}
	}
	return -1
}

func hasMaps(m *Msg) (n int, maxEntries int) {
	if m == nil {
		return
	}
	for _, f := range m.F {
		if f.FD.IsMap() {
			n++
			if len(f.M) > maxEntries {
				maxEntries = len(f.M)
			}
			for _, e := range f.M {
				a, b := hasMaps(e.V.M)
				n += a
				if b > maxEntries {
					maxEntries = b
				}
			}
		}
		if f.S != nil {
			a, b := hasMaps(f.S.M)
			n += a
			if b > maxEntries {
				maxEntries = b
			}
		}
		for _, v := range f.L {
			a, b := hasMaps(v.M)
			n += a
			if b > maxEntries {
				maxEntries = b
			}
		}
	}
	return
}

// shuffled returns a deep copy of m with every map's entry order (= insertion
// order used by the builders) and the field order permuted.
func shuffled(m *Msg, r *rand.Rand) *Msg {
	if m == nil {
		return nil
	}
	out := &Msg{D: m.D, Unk: m.Unk, Nil: m.Nil}
	cv := func(v Val) Val {
		if v.M != nil {
			return Val{M: shuffled(v.M, r)}
		}
		return v
	}
	for _, f := range m.F {
		nf := &FVal{FD: f.FD}
		if f.S != nil {
			v := cv(*f.S)
			nf.S = &v
		}
		for _, v := range f.L {
			nf.L = append(nf.L, cv(v))
		}
		for _, e := range f.M {
			nf.M = append(nf.M, KV{K: e.K, V: cv(e.V)})
		}
		r.Shuffle(len(nf.M), func(i, j int) { nf.M[i], nf.M[j] = nf.M[j], nf.M[i] })
		out.F = append(out.F, nf)
	}
	r.Shuffle(len(out.F), func(i, j int) { out.F[i], out.F[j] = out.F[j], out.F[i] })
	return out
}

func firstDiff(a, b []byte) string {
	n := len(a)
	if len(b) < n {
		n = len(b)
	}
	i := 0
	for i < n && a[i] == b[i] {
		i++
	}
	lo := i - 8
	if lo < 0 {
		lo = 0
	}
	ha, hb := i+12, i+12
	if ha > len(a) {
		ha = len(a)
	}
	if hb > len(b) {
		hb = len(b)
	}
	return fmt.Sprintf("len %d vs %d, first difference at byte %d: ...%x vs ...%x", len(a), len(b), i, a[lo:ha], b[lo:hb])
}

func hx(b []byte) string {
	if len(b) > 600 {
		return hex.EncodeToString(b[:600]) + "..."
	}
	return hex.EncodeToString(b)
}

// mapHistories builds the same value through a struct-level history that grows
// and shrinks every map (insert extra keys, delete them again).
func churnMaps(m proto.Message, r *rand.Rand) {
	churnRV(reflect.ValueOf(m), r, 0)
}

func churnRV(rv reflect.Value, r *rand.Rand, depth int) {
	if depth > 50 {
		return
	}
	switch rv.Kind() {
	case reflect.Ptr, reflect.Interface:
		if !rv.IsNil() {
			churnRV(rv.Elem(), r, depth+1)
		}
	case reflect.Struct:
		for i := 0; i < rv.NumField(); i++ {
			if rv.Type().Field(i).PkgPath != "" {
				continue
			}
			churnRV(rv.Field(i), r, depth+1)
		}
	case reflect.Slice:
		if rv.Type().Elem().Kind() == reflect.Ptr {
			for i := 0; i < rv.Len(); i++ {
				churnRV(rv.Index(i), r, depth+1)
			}
		}
	case reflect.Map:
		if rv.IsNil() || rv.Len() == 0 {
			return
		}
		// recurse into values first
		it := rv.MapRange()
		for it.Next() {
			if it.Value().Kind() == reflect.Ptr {
				churnRV(it.Value(), r, depth+1)
			}
		}
		// insert a number of fresh keys then delete them: changes bucket layout / growth history
		kt := rv.Type().Key()
		var added []reflect.Value
		for i := 0; i < 40; i++ {
			k := reflect.New(kt).Elem()
			switch kt.Kind() {
			case reflect.String:
				k.SetString(fmt.Sprintf("\x01churn-%d-%d", r.Int63(), i))
			case reflect.Bool:
				continue
			case reflect.Int32, reflect.Int64:
				k.SetInt(int64(int32(r.Int63())))
			case reflect.Uint32, reflect.Uint64:
				k.SetUint(uint64(uint32(r.Int63())))
			}
			if rv.MapIndex(k).IsValid() {
				continue
			}
			rv.SetMapIndex(k, reflect.Zero(rv.Type().Elem()))
			added = append(added, k)
		}
		for _, k := range added {
			rv.SetMapIndex(k, reflect.Value{})
		}
	}
}

func engineCodec(rep *Report) {
	subs := allSubjects()
	n := perType(150, 6000)
	only := onlyIndex()
	for ti, s := range subs {
		rep.Types = append(rep.Types, string(s.FullName))
		d := s.Zero.ProtoReflect().Descriptor()
		for i := 0; i < n; i++ {
			if !mineCase(ti, i) {
				continue
			}
			if only >= 0 && i != only {
				continue
			}
			guardCase(rep, "C01", "codec", string(s.FullName), i, func() { codecCase(rep, s, d, i) })
		}
	}
}

func codecCase(rep *Report, s *glue.Subject, d MD, idx int) {
	tn := string(s.FullName)
	seed := caseSeed(*flagSeed, tn, idx, "codec")
	o := defaultGen()
	if idx%7 == 3 {
		o.PFill = 0.95
	}
	if idx%11 == 5 {
		o.MaxDepth = 6
	}
	g := NewGen(seed, o)
	v := g.Msg(d, 0)
	r := rand.New(rand.NewSource(seed ^ 0x5eed))
	for k, c := range g.Cells {
		rep.Count("C01", "cell/"+k, int64(c))
	}
	want := SpecEncode(v)
	nontrivial := len(v.F) > 0
	rc := replayCase{Engine: "codec", Type: tn, Seed: *flagSeed, Index: idx, Value: hx(want)}
	snan := hasF32SNaN(v)
	vq := v
	wantQ := want
	if snan {
		vq = quietF32(v)
		wantQ = SpecEncode(vq)
		rep.Count("C01", "values-with-float32-snan", 1)
	}

	// --- arbiters must agree with each other on this value
	dyn := BuildDyn(vq)
	dynBytes, err := detOpts.Marshal(dyn)
	if err != nil || !bytes.Equal(dynBytes, wantQ) {
		rep.Inconclusive("C02", "reference-ambiguous(dynamicpb!=spec)")
		rep.Inconclusive("C01", "reference-ambiguous(dynamicpb!=spec)")
		if len(rep.Notes) < 10 {
			rep.Notes = append(rep.Notes, fmt.Sprintf("arbiter disagreement %s idx=%d err=%v: %s", tn, idx, err, firstDiff(dynBytes, wantQ)))
		}
		return
	}

	// --- materialise the subject three ways; rotate which one is the main subject
	var S proto.Message
	route := idx % 5
	exp, expIR := want, v
	var pmsg string
	var pan bool
	switch route {
	case 0:
		pan, pmsg = safely(func() {
			S = BuildStruct(s.Zero, v)
			if idx%10 < 5 {
				// zero-length bytes payloads (oneof members, list elements, map values) as nil slices: the same value
				if emptyBytesToNil(reflect.ValueOf(S), 0) > 0 {
					rep.Count("C01", "subjects-with-nil-bytes-payloads", 1)
				}
			}
		})
	case 1:
		exp, expIR = wantQ, vq
		pan, pmsg = safely(func() { S = newOf(s.Zero); Fill(slowView, S, vq) })
	case 2:
		exp, expIR = wantQ, vq
		pan, pmsg = safely(func() { S = newOf(s.Zero); Fill(fastView, S, vq) })
	case 3:
		// struct-level state: every absent list/map/bytes field is an empty, allocated container
		pan, pmsg = safely(func() { S = BuildStruct(s.Zero, v); nilToEmpty(reflect.ValueOf(S), 0) })
	case 4:
		// struct-level state: nil pointers as message list elements / map values (they read as empty messages);
		// the expected encoding is what the struct observer reads back
		pan, pmsg = safely(func() {
			S = BuildStruct(s.Zero, v)
			if nilOutMessages(reflect.ValueOf(S), r, 0) > 0 {
				rep.Count("C04", "subjects-with-nil-elements", 1)
			}
			nIR := Canon(StructToIR(S))
			nb := SpecEncode(nIR)
			// a nil element of an embedded proto2 type reads as a message without its required fields: keep the original then
			dm := dynamicpb.NewMessage(s.Zero.ProtoReflect().Descriptor())
			if e := (proto.UnmarshalOptions{AllowPartial: true}).Unmarshal(nb, dm); e != nil || proto.CheckInitialized(dm) != nil {
				S = BuildStruct(s.Zero, v)
				return
			}
			expIR, exp = nIR, nb
			want, wantQ, vq = exp, SpecEncode(quietF32(expIR)), quietF32(expIR)
		})
	}
	routeName := []string{"struct", "slow-set", "fast-set", "struct+empty-containers", "struct+nil-elements"}[route]
	rep.Count("C01", "route/"+routeName, 1)
	if pan {
		if route == 2 {
			rep.Violate("C08", "codec/build-through-fast-reflection/panic", tn, pmsg, rc)
		} else {
			rep.Inconclusive("C01", "builder-panic/"+routeName)
			if len(rep.Notes) < 10 {
				rep.Notes = append(rep.Notes, "builder panic "+tn+": "+pmsg)
			}
		}
		return
	}
	// the struct must hold the value (observer independent of every reflection implementation)
	if got := SpecEncode(Canon(StructToIR(S))); !bytes.Equal(got, exp) {
		if route == 2 {
			rep.Violate("C08", "codec/build-through-fast-reflection/state", tn, "struct built through fast reflection Set/Mutable differs from the value: "+firstDiff(got, exp), rc)
		} else {
			rep.Inconclusive("C01", "builder-mismatch/"+routeName)
			if len(rep.Notes) < 10 {
				rep.Notes = append(rep.Notes, fmt.Sprintf("builder mismatch %s idx=%d route=%s: %s", tn, idx, routeName, firstDiff(got, exp)))
			}
		}
		return
	}
	fpBefore := Fingerprint(S)

	rep.Eval("C01", want, nontrivial)
	rep.Eval("C02", want, nontrivial)
	rep.Eval("C04", want, nontrivial)
	if idx < 2 {
		rep.Sample("C01", map[string]string{"type": tn, "route": routeName, "value_reference_encoding_hex": hx(exp)})
		rep.Sample("C02", map[string]string{"type": tn, "deterministic_bytes_hex": hx(exp)})
		rep.Sample("C04", map[string]string{"type": tn, "size": strconv.Itoa(len(exp)), "value_reference_encoding_hex": hx(exp)})
	}

	// --- C02: deterministic bytes
	markProp("C02")
	var detB, plainB []byte
	marshalOK := true
	pan, pmsg = safely(func() { detB, err = detOpts.Marshal(S) })
	if pan || err != nil {
		rep.Violate("C01", "codec/marshal-det/fails", tn, fmt.Sprintf("deterministic Marshal failed: err=%v %s", err, pmsg), rc)
		rep.Violate("C04", "codec/marshal-det/fails", tn, fmt.Sprintf("deterministic Marshal failed (Size/Marshal disagree?): err=%v %s", err, pmsg), rc)
		marshalOK = false
	} else if !bytes.Equal(detB, exp) {
		rep.Violate("C02", "codec/det-bytes", tn, "deterministic bytes differ from reference (dynamicpb = spec encoder): "+firstDiff(detB, exp), rc)
	} else if ab, aerr := detOpts.MarshalAppend([]byte("prefix"), S); aerr != nil || !bytes.Equal(ab, append([]byte("prefix"), exp...)) {
		rep.Violate("C02", "codec/det-bytes/append", tn, fmt.Sprintf("deterministic MarshalAppend onto a non-empty buffer is not the buffer followed by the reference bytes (err=%v): %s", aerr, firstDiff(ab, append([]byte("prefix"), exp...))), rc)
	}

	// --- C01: both modes round trip
	markProp("C01")
	if marshalOK {
		pan, pmsg = safely(func() { plainB, err = plainOpts.Marshal(S) })
		if pan || err != nil {
			rep.Violate("C01", "codec/marshal/fails", tn, fmt.Sprintf("Marshal failed: err=%v %s", err, pmsg), rc)
			rep.Violate("C04", "codec/marshal/fails", tn, fmt.Sprintf("Marshal failed: err=%v %s", err, pmsg), rc)
			marshalOK = false
		}
	}
	for mi, b := range [][]byte{plainB, detB} {
		if !marshalOK {
			break
		}
		mode := []string{"plain", "det"}[mi]
		// (a) the bytes are a valid encoding of the value (independent decoder)
		dec, derr := SpecDecode(d, b, SpecOpts{})
		if derr != nil || !bytes.Equal(SpecEncode(Canon(dec)), exp) {
			rep.Violate("C01", "codec/encoding-not-the-value/"+mode, tn, fmt.Sprintf("Marshal output does not decode (spec decoder) to the value: err=%v %s", derr, firstDiff(SpecEncode(Canon(dec)), exp)), rc)
			continue
		}
		// (b) decoding into a fresh generated message gives the value back
		fresh := newOf(s.Zero)
		var uerr error
		entry := (idx/5 + mi) % 4
		pan, pmsg = safely(func() { uerr = unmarshalVia(entry, b, fresh, false, false) })
		rep.Count("C01", "decode-entry/"+unmarshalEntryName(entry), 1)
		if pan || uerr != nil {
			rep.Violate("C01", "codec/unmarshal-own-output/fails/"+mode, tn, fmt.Sprintf("Unmarshal (%s) of own output failed: err=%v %s", unmarshalEntryName(entry), uerr, pmsg), rc)
			continue
		}
		if got := SpecEncode(Canon(StructToIR(fresh))); !bytes.Equal(got, exp) {
			rep.Violate("C01", "codec/roundtrip/"+mode, tn, "decode(encode(v)) != v: "+firstDiff(got, exp), rc)
		}
		// (c) observe-at of the property: dynamicpb re-decoding of both sides
		if mi == 0 {
			d2 := dynamicpb.NewMessage(d)
			if e := proto.Unmarshal(b, d2); e != nil {
				rep.Violate("C01", "codec/encoding-rejected-by-reference/"+mode, tn, "reference decoder rejects Marshal output: "+e.Error(), rc)
			} else if db, _ := detOpts.Marshal(d2); !bytes.Equal(db, wantQ) {
				rep.Violate("C01", "codec/encoding-reference-decode/"+mode, tn, "reference decode of Marshal output differs: "+firstDiff(db, wantQ), rc)
			}
		}
	}

	if idx == 0 {
		nilPtr := reflect.Zero(reflect.TypeOf(s.Zero)).Interface().(proto.Message)
		for _, o := range []proto.MarshalOptions{plainOpts, detOpts} {
			var out []byte
			var aerr error
			pan, pmsg = safely(func() { out, aerr = o.MarshalAppend([]byte("prefix"), nilPtr) })
			if pan || aerr != nil || string(out) != "prefix" {
				rep.Violate("C04", "codec/marshalappend/nil-message", tn, fmt.Sprintf("MarshalAppend(prefix, (*T)(nil)) = %q, err=%v %s; want the prefix unchanged", out, aerr, pmsg), rc)
			}
			if o.Size(nilPtr) != 0 {
				rep.Violate("C04", "codec/size/nil-message", tn, "Size of a nil message is not 0", rc)
			}
		}
	}

	// --- C04: sizes and MarshalAppend
	markProp("C04")
	for mi, o := range []proto.MarshalOptions{plainOpts, detOpts} {
		mode := []string{"plain", "det"}[mi]
		var sz int
		pan, pmsg = safely(func() { sz = o.Size(S) })
		if pan {
			rep.Violate("C04", "codec/size/panic", tn, pmsg, rc)
			continue
		}
		if sz != len(exp) {
			rep.Violate("C04", "codec/size/"+mode, tn, fmt.Sprintf("Size=%d, encoding has %d bytes (reference %d)", sz, len(detB), len(exp)), rc)
		}
		// direct ProtoMethods calls
		pm := S.ProtoReflect().ProtoMethods()
		if pm == nil || pm.Size == nil || pm.Marshal == nil || pm.Unmarshal == nil {
			rep.Violate("C04", "codec/protomethods-missing", tn, "ProtoMethods() lacks Size/Marshal/Unmarshal", rc)
		} else {
			var flags protoiface.MarshalInputFlags
			if mi == 1 {
				flags = protoiface.MarshalDeterministic
			}
			if r.Intn(2) == 0 {
				flags |= protoiface.MarshalUseCachedSize
			}
			var so protoiface.SizeOutput
			var mo protoiface.MarshalOutput
			var merr error
			prefix := []byte("PFX")
			pan, pmsg = safely(func() {
				so = pm.Size(protoiface.SizeInput{Message: S.ProtoReflect(), Flags: flags})
				mo, merr = pm.Marshal(protoiface.MarshalInput{Message: S.ProtoReflect(), Buf: append([]byte{}, prefix...), Flags: flags})
			})
			if pan || merr != nil {
				rep.Violate("C04", "codec/protomethods/fails", tn, fmt.Sprintf("direct ProtoMethods Size/Marshal: err=%v %s", merr, pmsg), rc)
			} else {
				if so.Size != len(exp) {
					rep.Violate("C04", "codec/protomethods/size", tn, fmt.Sprintf("ProtoMethods().Size=%d want %d (flags %d)", so.Size, len(exp), flags), rc)
				}
				if !bytes.HasPrefix(mo.Buf, prefix) || len(mo.Buf)-len(prefix) != len(exp) || (mi == 1 && !bytes.Equal(mo.Buf[len(prefix):], exp)) {
					rep.Violate("C04", "codec/protomethods/marshal", tn, "ProtoMethods().Marshal with Buf prefix: "+firstDiff(mo.Buf, append(append([]byte{}, prefix...), exp...)), rc)
				}
			}
		}
		// MarshalAppend over prefix shapes
		for pi := 0; pi < 6; pi++ {
			var pre []byte
			spare := 0
			switch pi {
			case 0:
				pre = nil
			case 1:
				pre = make([]byte, 0, 64)
			case 2:
				pre = []byte{0xde, 0xad, 0xbe, 0xef}
			case 3: // spare capacity larger than the encoding, pre-filled with a canary
				spare = len(exp) + 32
			case 4: // spare capacity smaller than the encoding
				spare = len(exp) / 2
			case 5: // spare capacity exactly the encoding
				spare = len(exp)
			}
			var backing []byte
			if pi >= 3 {
				plen := 1 + r.Intn(9)
				backing = make([]byte, plen+spare)
				for i := range backing {
					backing[i] = 0xA5
				}
				for i := 0; i < plen; i++ {
					backing[i] = byte(0x10 + i)
				}
				pre = backing[:plen]
			}
			preCopy := append([]byte{}, pre...)
			var out []byte
			var aerr error
			pan, pmsg = safely(func() { out, aerr = o.MarshalAppend(pre, S) })
			rep.Count("C04", "marshalappend-calls", 1)
			if pan || aerr != nil {
				rep.Violate("C04", "codec/marshalappend/fails", tn, fmt.Sprintf("MarshalAppend prefix-shape %d: err=%v %s", pi, aerr, pmsg), rc)
				continue
			}
			if len(out) != len(preCopy)+len(exp) || !bytes.Equal(out[:len(preCopy)], preCopy) {
				rep.Violate("C04", "codec/marshalappend/prefix", tn, fmt.Sprintf("MarshalAppend prefix-shape %d (%s): result len %d want %d+%d, prefix intact=%v", pi, mode, len(out), len(preCopy), len(exp), bytes.HasPrefix(out, preCopy)), rc)
				continue
			}
			tail := out[len(preCopy):]
			if mi == 1 && !bytes.Equal(tail, exp) {
				rep.Violate("C04", "codec/marshalappend/tail", tn, "MarshalAppend tail differs from the encoding: "+firstDiff(tail, exp), rc)
			} else if mi == 0 {
				if dec, derr := SpecDecode(d, tail, SpecOpts{}); derr != nil || !bytes.Equal(SpecEncode(Canon(dec)), exp) {
					rep.Violate("C04", "codec/marshalappend/tail", tn, "MarshalAppend tail (plain mode) is not an encoding of the value", rc)
				}
			}
		}
	}

	// read-only calls above must not have changed the struct (also part of C07; cheap here)
	if fp := Fingerprint(S); fp != fpBefore {
		rep.Violate("C07", "codec/readonly-call-mutates-struct", tn, "struct changed by Size/Marshal/MarshalAppend", rc)
	}

	// --- C01/C04: partial messages (required fields of embedded proto2 messages left out) with AllowPartial
	if idx%2 == 0 && hasRequiredBelow(d) {
		markProp("C01")
		o2 := defaultGen()
		o2.OmitRequired = true
		o2.NoSNaN = true
		pv := NewGen(seed^0x9a, o2).Msg(d, 0)
		pexp := SpecEncode(pv)
		P := BuildStruct(s.Zero, pv)
		ap := proto.MarshalOptions{AllowPartial: true, Deterministic: true}
		var pb []byte
		var perr error
		var psz int
		pan, pmsg = safely(func() { psz = ap.Size(P); pb, perr = ap.Marshal(P) })
		rep.Count("C01", "partial-messages-with-allowpartial", 1)
		switch {
		case pan || perr != nil:
			rep.Violate("C01", "codec/allowpartial/marshal-fails", tn, fmt.Sprintf("Marshal with AllowPartial of a message whose embedded proto2 message lacks a required field: err=%v %s", perr, pmsg), rc)
			rep.Violate("C04", "codec/allowpartial/marshal-fails", tn, fmt.Sprintf("Size=%d but Marshal with AllowPartial fails: err=%v %s", psz, perr, pmsg), rc)
		case !bytes.Equal(pb, pexp):
			rep.Violate("C01", "codec/allowpartial/encoding-not-the-value", tn, firstDiff(pb, pexp), rc)
		case psz != len(pexp):
			rep.Violate("C04", "codec/size/allowpartial", tn, fmt.Sprintf("Size=%d, encoding has %d bytes", psz, len(pexp)), rc)
		default:
			fresh := newOf(s.Zero)
			var uerr error
			pan, pmsg = safely(func() { uerr = proto.UnmarshalOptions{AllowPartial: true}.Unmarshal(pb, fresh) })
			if pan || uerr != nil {
				rep.Violate("C01", "codec/allowpartial/unmarshal-fails", tn, fmt.Sprintf("Unmarshal with AllowPartial of own output: err=%v %s", uerr, pmsg), rc)
			} else if got := SpecEncode(Canon(StructToIR(fresh))); !bytes.Equal(got, SpecEncode(Canon(pv))) {
				rep.Violate("C01", "codec/allowpartial/roundtrip", tn, firstDiff(got, SpecEncode(Canon(pv))), rc)
			}
		}
	}

	// --- C04/C02: sizes are computed from the message as it is now, never remembered: after the calls above (which
	// may have filled size caches at every level) nested messages are changed in place and the message is sized and
	// marshalled again through every entry point.
	markProp("C04")
	if idx%3 == 0 && marshalOK {
		T := BuildStruct(s.Zero, expIR)
		pan, pmsg = safely(func() { _ = detOpts.Size(T); _, _ = detOpts.Marshal(T); _ = plainOpts.Size(T) })
		if n := perturbNested(reflect.ValueOf(T), 0, r); n > 0 && !pan {
			exp2 := SpecEncode(Canon(StructToIR(T)))
			dm := dynamicpb.NewMessage(d)
			if e := (proto.UnmarshalOptions{AllowPartial: true}).Unmarshal(exp2, dm); e == nil {
				rep.Count("C04", "size-mutate-marshal-histories", 1)
				type entry struct {
					name string
					f    func() ([]byte, int, error)
				}
				direct := func(flags protoiface.MarshalInputFlags) func() ([]byte, int, error) {
					return func() ([]byte, int, error) {
						pm := T.ProtoReflect().ProtoMethods()
						// Marshal first: a Size call would refresh whatever is cached below
						mo, e := pm.Marshal(protoiface.MarshalInput{Message: T.ProtoReflect(), Flags: flags})
						so := pm.Size(protoiface.SizeInput{Message: T.ProtoReflect(), Flags: flags &^ protoiface.MarshalDeterministic})
						return mo.Buf, so.Size, e
					}
				}
				entries := []entry{
					{"ProtoMethods().Marshal(Deterministic)", direct(protoiface.MarshalDeterministic)},
					{"MarshalOptions{Deterministic}.Marshal", func() ([]byte, int, error) {
						b, e := (proto.MarshalOptions{Deterministic: true, AllowPartial: true}).Marshal(T)
						return b, (proto.MarshalOptions{Deterministic: true, AllowPartial: true}).Size(T), e
					}},
					{"MarshalOptions{Deterministic}.MarshalAppend", func() ([]byte, int, error) {
						b, e := (proto.MarshalOptions{Deterministic: true, AllowPartial: true}).MarshalAppend(make([]byte, 0, 4), T)
						return b, len(exp2), e
					}},
				}
				for _, en := range entries {
					var b []byte
					var sz int
					var e error
					pan, pmsg = safely(func() { b, sz, e = en.f() })
					switch {
					case pan || e != nil:
						rep.Violate("C04", "codec/after-mutation/fails", tn, fmt.Sprintf("%s after sizing, changing nested messages in place and marshalling again: err=%v %s", en.name, e, pmsg), rc)
					case sz != len(exp2):
						rep.Violate("C04", "codec/after-mutation/size", tn, fmt.Sprintf("%s: Size=%d after nested messages changed in place, the value now encodes to %d bytes", en.name, sz, len(exp2)), rc)
					case !bytes.Equal(b, exp2):
						// (C05: the bytes depend on the message's past, not on its value: an equal message built afresh encodes to exp2)
						rep.Violate("C05", "codec/after-mutation/det-not-unique", tn, fmt.Sprintf("%s: a message that was sized, then changed in place, encodes differently from an equal message built afresh: %s", en.name, firstDiff(b, exp2)), rc)
						rep.Violate("C02", "codec/after-mutation/det-bytes", tn, fmt.Sprintf("%s after nested messages changed in place: %s", en.name, firstDiff(b, exp2)), rc)
						rep.Violate("C04", "codec/after-mutation/det-bytes", tn, fmt.Sprintf("%s after nested messages changed in place: %s", en.name, firstDiff(b, exp2)), rc)
					}
				}
			}
		}
	}

	// --- C05
	markProp("C05")
	nm, maxEnt := hasMaps(v)
	if nm > 0 && marshalOK {
		h, reps := 3, 4
		if idx%4 == 3 {
			h = 6 // every fourth case also in the quick tier: the clone history and second rounds of the others
		}
		if *flagTier == "thorough" {
			h, reps = 6, 16
		}
		rep.Eval("C05", want, maxEnt >= 2)
		if idx < 40 && maxEnt >= 2 {
			rep.Sample("C05", map[string]interface{}{"type": tn, "maps_in_value": nm, "largest_map": maxEnt, "deterministic_bytes_hex": hx(exp)})
		}
		outs := map[string]int{}
		firstBy := map[string]string{} // output -> "history h, marshal k" that produced it first
		plainOuts := map[string]struct{}{}
		for hi := 0; hi < h; hi++ {
			var H proto.Message
			sv := shuffled(expIR, r)
			switch hi % 3 {
			case 0:
				H = BuildStruct(s.Zero, sv)
				if hi >= 3 || idx%2 == 0 {
					nilToEmpty(reflect.ValueOf(H), 0) // nil-versus-empty containers are the same value
				}
			case 1:
				H = BuildStruct(s.Zero, sv)
				churnMaps(H, r)
			case 2:
				// decode of a (randomly ordered) encoding
				H = newOf(s.Zero)
				if e := proto.Unmarshal(plainB, H); e != nil {
					continue
				}
			}
			if hi == 3 && !hasF32SNaN(expIR) && !hasForeignNegZero(expIR) { // Clone goes through protoreflect.Value, which quiets float32 sNaNs; protobuf-go's own merge drops -0.0 inside its types
				H = proto.Clone(H)
			}
			if (hi+idx)%3 == 0 {
				emptyBytesToNil(reflect.ValueOf(H), 0)
			}
			if hi%3 != 2 && (hi+idx)%2 == 1 {
				// a nil pointer where an empty message stands as list element or map value is the same value (proto.Equal)
				if nilOutEmptyMessages(reflect.ValueOf(H), 0) > 0 {
					rep.Count("C05", "histories-with-nil-for-empty-message-elements", 1)
				}
			}
			for k := 0; k < reps; k++ {
				var b []byte
				var e error
				pan, pmsg = safely(func() {
					switch (k + hi) % 4 {
					case 0, 1:
						b, e = detOpts.Marshal(H)
					case 2:
						// the fast path called directly with only the Deterministic flag (no cached sizes)
						if meth := H.ProtoReflect().ProtoMethods(); meth != nil && meth.Marshal != nil {
							var out protoiface.MarshalOutput
							out, e = meth.Marshal(protoiface.MarshalInput{Message: H.ProtoReflect(), Flags: protoiface.MarshalDeterministic})
							b = out.Buf
							rep.Count("C05", "det-marshals-direct-fast-path", 1)
						} else {
							b, e = detOpts.Marshal(H)
						}
					case 3:
						if (k+hi)%8 == 3 {
							// the repository's own packing helper, given the same options
							dst := &anypb.Any{}
							e = anyutil.MarshalFrom(dst, H, detOpts)
							b = dst.Value
							rep.Count("C05", "det-marshals-anyutil.MarshalFrom", 1)
						} else {
							b, e = detOpts.MarshalAppend(make([]byte, 0, 8), H)
						}
					}
				})
				if pan || e != nil {
					rep.Violate("C05", "codec/det-marshal-fails", tn, fmt.Sprintf("err=%v %s", e, pmsg), rc)
					break
				}
				outs[string(b)]++
				if _, ok := firstBy[string(b)]; !ok {
					firstBy[string(b)] = fmt.Sprintf("history %d, marshal %d", hi, k)
				}
				if k < 3 {
					pb, _ := plainOpts.Marshal(H)
					plainOuts[string(pb)] = struct{}{}
				}
				rep.Count("C05", "det-marshals", 1)
			}
		}
		if len(outs) > 1 {
			var ex []string
			for k := range outs {
				ex = append(ex, hx([]byte(k)))
				if len(ex) == 2 {
					break
				}
			}
			var who []string
			for k := range outs {
				who = append(who, firstBy[k])
			}
			sort.Strings(who)
			rep.Violate("C05", "codec/det-not-unique", tn, fmt.Sprintf("%d distinct deterministic encodings of equal messages (first produced by %s), e.g. %s vs %s", len(outs), strings.Join(who, " / "), ex[0], ex[1]), rc)
		} else if len(outs) == 1 {
			for k := range outs {
				if k != string(exp) {
					rep.Violate("C05", "codec/det-differs-from-value", tn, "deterministic bytes stable but not the reference bytes: "+firstDiff([]byte(k), exp), rc)
				}
			}
		}
		if maxEnt >= 2 {
			rep.Count("C05", "values-with-map>=2", 1)
			if len(plainOuts) > 1 {
				rep.Count("C05", "values-where-plain-marshal-order-varied", 1)
			}
			// sensitivity of the workload itself (independent of the subject): Go's map iteration order varied
			if goMapOrderVaries(reflect.ValueOf(S), 0) {
				rep.Count("C05", "values-where-go-map-iteration-varied", 1)
			}
		}
	}
}

// nilOutEmptyMessages replaces list elements and map values that are empty messages (no populated field, no
// unknown bytes) by nil pointers and returns how many it replaced.
func nilOutEmptyMessages(rv reflect.Value, depth int) int {
	if depth > 100 {
		return 0
	}
	isEmpty := func(e reflect.Value) bool {
		m, ok := e.Interface().(proto.Message)
		if !ok || e.IsNil() {
			return false
		}
		ir := StructToIR(m)
		return ir != nil && len(ir.F) == 0 && len(ir.Unk) == 0
	}
	n := 0
	switch rv.Kind() {
	case reflect.Ptr, reflect.Interface:
		if !rv.IsNil() {
			n += nilOutEmptyMessages(rv.Elem(), depth+1)
		}
	case reflect.Struct:
		for i := 0; i < rv.NumField(); i++ {
			if rv.Type().Field(i).PkgPath != "" {
				continue
			}
			n += nilOutEmptyMessages(rv.Field(i), depth+1)
		}
	case reflect.Slice:
		if rv.Type().Elem().Kind() == reflect.Ptr && rv.Type().Elem().Elem().Kind() == reflect.Struct {
			for i := 0; i < rv.Len(); i++ {
				if isEmpty(rv.Index(i)) {
					rv.Index(i).Set(reflect.Zero(rv.Type().Elem()))
					n++
				} else {
					n += nilOutEmptyMessages(rv.Index(i), depth+1)
				}
			}
		}
	case reflect.Map:
		if rv.Type().Elem().Kind() == reflect.Ptr && rv.Type().Elem().Elem().Kind() == reflect.Struct {
			for _, k := range rv.MapKeys() {
				if isEmpty(rv.MapIndex(k)) {
					rv.SetMapIndex(k, reflect.Zero(rv.Type().Elem()))
					n++
				} else {
					n += nilOutEmptyMessages(rv.MapIndex(k), depth+1)
				}
			}
		}
	}
	return n
}

// goMapOrderVaries: some Go map with >= 2 entries inside the struct is iterated in two different orders by
// repeated range loops (evidence that the runtime randomisation the property quantifies over is active).
func goMapOrderVaries(rv reflect.Value, depth int) bool {
	if depth > 20 {
		return false
	}
	switch rv.Kind() {
	case reflect.Ptr, reflect.Interface:
		return !rv.IsNil() && goMapOrderVaries(rv.Elem(), depth+1)
	case reflect.Struct:
		for i := 0; i < rv.NumField(); i++ {
			if rv.Type().Field(i).PkgPath == "" && goMapOrderVaries(rv.Field(i), depth+1) {
				return true
			}
		}
	case reflect.Slice:
		if rv.Type().Elem().Kind() == reflect.Ptr {
			for i := 0; i < rv.Len(); i++ {
				if goMapOrderVaries(rv.Index(i), depth+1) {
					return true
				}
			}
		}
	case reflect.Map:
		if rv.Len() >= 2 {
			first := fmt.Sprint(rv.MapRange().Next(), firstKey(rv))
			for t := 0; t < 6; t++ {
				if fmt.Sprint(true, firstKey(rv)) != first {
					return true
				}
			}
		}
		if rv.Type().Elem().Kind() == reflect.Ptr {
			for _, k := range rv.MapKeys() {
				if goMapOrderVaries(rv.MapIndex(k), depth+1) {
					return true
				}
			}
		}
	}
	return false
}

func firstKey(rv reflect.Value) string {
	it := rv.MapRange()
	if it.Next() {
		return fmt.Sprint(it.Key().Interface())
	}
	return ""
}

// perturbNested changes, in place, varint and string fields of the messages nested below the top level (fields,
// list elements, map values, oneof members; generated and foreign types alike) so that their encoded size changes.
// Returns the number of fields changed.
func perturbNested(rv reflect.Value, depth int, r *rand.Rand) int {
	if depth > 60 {
		return 0
	}
	n := 0
	switch rv.Kind() {
	case reflect.Ptr, reflect.Interface:
		if !rv.IsNil() {
			n += perturbNested(rv.Elem(), depth, r)
		}
	case reflect.Struct:
		t := rv.Type()
		for i := 0; i < rv.NumField(); i++ {
			sf := t.Field(i)
			if sf.PkgPath != "" {
				continue
			}
			fv := rv.Field(i)
			tag := sf.Tag.Get("protobuf")
			if depth > 0 && tag != "" && fv.CanSet() && r.Intn(3) == 0 {
				kind := strings.SplitN(tag, ",", 2)[0]
				switch {
				case (kind == "varint" || kind == "zigzag64" || kind == "zigzag32") && (fv.Kind() == reflect.Int64 || fv.Kind() == reflect.Int32):
					if fv.Int() == 0 || (fv.Int() > -64 && fv.Int() < 64) {
						fv.SetInt(1 << 29)
					} else {
						fv.SetInt(1)
					}
					n++
					continue
				case kind == "varint" && (fv.Kind() == reflect.Uint64 || fv.Kind() == reflect.Uint32):
					if fv.Uint() < 128 {
						fv.SetUint(1 << 30)
					} else {
						fv.SetUint(1)
					}
					n++
					continue
				case kind == "bytes" && fv.Kind() == reflect.String:
					if len(fv.String()) < 3 {
						fv.SetString("changed-in-place-to-something-longer")
					} else {
						fv.SetString("x")
					}
					n++
					continue
				}
			}
			n += perturbNested(fv, depth+1, r)
		}
	case reflect.Slice:
		if rv.Type().Elem().Kind() == reflect.Ptr {
			for i := 0; i < rv.Len(); i++ {
				n += perturbNested(rv.Index(i), depth+1, r)
			}
		}
	case reflect.Map:
		if rv.Type().Elem().Kind() == reflect.Ptr {
			for _, k := range rv.MapKeys() {
				n += perturbNested(rv.MapIndex(k), depth+1, r)
			}
		}
	}
	return n
}

// emptyBytesToNil turns zero-length, non-nil []byte payloads of oneof members, list elements and map values into nil
// slices (the same bytes value) and returns how many it changed.
func emptyBytesToNil(rv reflect.Value, depth int) int {
	if depth > 100 {
		return 0
	}
	n := 0
	isBytes := func(t reflect.Type) bool { return t.Kind() == reflect.Slice && t.Elem().Kind() == reflect.Uint8 }
	switch rv.Kind() {
	case reflect.Ptr, reflect.Interface:
		if !rv.IsNil() {
			n += emptyBytesToNil(rv.Elem(), depth+1)
		}
	case reflect.Struct:
		t := rv.Type()
		for i := 0; i < rv.NumField(); i++ {
			sf := t.Field(i)
			if sf.PkgPath != "" {
				continue
			}
			fv := rv.Field(i)
			if isBytes(sf.Type) {
				// only the payload of a oneof wrapper (its tag says oneof): a plain proto3 bytes field that is empty is unset anyway
				if strings.Contains(sf.Tag.Get("protobuf"), ",oneof") && !fv.IsNil() && fv.Len() == 0 && fv.CanSet() {
					fv.Set(reflect.Zero(sf.Type))
					n++
				}
				continue
			}
			n += emptyBytesToNil(fv, depth+1)
		}
	case reflect.Slice:
		if isBytes(rv.Type().Elem()) {
			for i := 0; i < rv.Len(); i++ {
				if e := rv.Index(i); !e.IsNil() && e.Len() == 0 {
					e.Set(reflect.Zero(e.Type()))
					n++
				}
			}
		} else if rv.Type().Elem().Kind() == reflect.Ptr {
			for i := 0; i < rv.Len(); i++ {
				n += emptyBytesToNil(rv.Index(i), depth+1)
			}
		}
	case reflect.Map:
		if isBytes(rv.Type().Elem()) {
			for _, k := range rv.MapKeys() {
				if e := rv.MapIndex(k); !e.IsNil() && e.Len() == 0 {
					rv.SetMapIndex(k, reflect.Zero(rv.Type().Elem()))
					n++
				}
			}
		} else if rv.Type().Elem().Kind() == reflect.Ptr {
			for _, k := range rv.MapKeys() {
				n += emptyBytesToNil(rv.MapIndex(k), depth+1)
			}
		}
	}
	return n
}

// hasForeignNegZero: the value holds a -0.0 float/double inside a message type that protobuf-go implements itself
// (its merge, used by Clone, drops such fields: a property of the library, not of the generated code).
func hasForeignNegZero(v *Msg) bool {
	c := cloneIR(v)
	dropForeignNegZero(c, false)
	return !bytes.Equal(SpecEncode(c), SpecEncode(v))
}
