package main

// Well-typed wire stream generator: renders an IR value as a record stream while
// applying the mutations C03/C14 quantify over (reordering, duplication,
// packed/unpacked choice, split packed runs, non-minimal varints, partial /
// duplicated / reordered map entries, split singular messages, several oneof
// members in sequence, interleaved unknown records at every level).
// The expected decode result is NOT derived here: the arbiters (spec decoder and
// dynamicpb) decide it from the produced bytes.

import (
	"math/rand"

	"github.com/cosmos/cosmos-proto/zzverif/glue"

	"google.golang.org/protobuf/reflect/protoreflect"
)

type WireGen struct {
	R        *rand.Rand
	G        *Gen
	Unknown  bool // inject unknown records
	NonMin   bool // allow non-minimal varints
	Muts     map[string]int
	MaxDepth int
}

func (w *WireGen) mut(name string) { w.Muts[name]++ }

func (w *WireGen) vint(b []byte, v uint64) []byte {
	if w.NonMin && w.R.Intn(12) == 0 {
		n := varintLen(v) + 1 + w.R.Intn(3)
		if n > 10 {
			n = 10
		}
		if n > varintLen(v) {
			w.mut("non-minimal-varint")
			return appendVarintN(b, v, n)
		}
	}
	return appendVarint(b, v)
}

func (w *WireGen) tag(b []byte, num protoreflect.FieldNumber, wt uint64) []byte {
	return w.vint(b, uint64(num)<<3|wt)
}

func (w *WireGen) scalarPayload(b []byte, k Kind, v Val) []byte {
	switch wireTypeOf(k) {
	case 0:
		u := wireScalar(k, v)
		if k == protoreflect.BoolKind && u != 0 && w.NonMin && w.R.Intn(4) == 0 {
			// any non-zero varint is true
			u = []uint64{2, 3, 128, 300, 1 << 32, 1 << 40, 1<<63 | 1, 0xfffffffffffffffe}[w.R.Intn(8)]
			w.mut("bool-varint-not-0-or-1")
		}
		switch k {
		case protoreflect.Uint32Kind, protoreflect.Sint32Kind, protoreflect.Int32Kind, protoreflect.EnumKind:
			// a varint wider than 32 bits for a 32-bit kind is well typed: decoders truncate (sint32: before un-zig-zagging)
			if w.NonMin && w.R.Intn(10) == 0 {
				u = u&0xffffffff | uint64(w.R.Uint32())<<32
				w.mut("wide-varint-for-32-bit-kind")
			}
		}
		return w.vint(b, u)
	case 2:
		b = w.vint(b, uint64(len(v.B)))
		return append(b, v.B...)
	}
	return appendScalar(b, k, v)
}

func (w *WireGen) lenDelim(b []byte, num protoreflect.FieldNumber, payload []byte) []byte {
	b = w.tag(b, num, 2)
	b = w.vint(b, uint64(len(payload)))
	return append(b, payload...)
}

func (w *WireGen) single(fd FD, v Val, depth int) []byte {
	if fd.Kind() == protoreflect.MessageKind {
		var sub []byte
		if v.M != nil {
			sub = w.Stream(v.M, depth+1)
		}
		return w.lenDelim(nil, fd.Number(), sub)
	}
	b := w.tag(nil, fd.Number(), wireTypeOf(fd.Kind()))
	return w.scalarPayload(b, fd.Kind(), v)
}

func concat(chunks [][]byte) []byte {
	var b []byte
	for _, c := range chunks {
		b = append(b, c...)
	}
	return b
}

// Chunks renders message m as a list of independent record chunks.
func (w *WireGen) Chunks(m *Msg, depth int) [][]byte {
	r := w.R
	var chunks [][]byte
	if m == nil {
		return nil
	}
	for _, f := range m.F {
		fd := f.FD
		switch {
		case fd.IsMap():
			kfd, vfd := fd.MapKey(), fd.MapValue()
			for _, e := range f.M {
				n := 1
				if r.Intn(10) == 0 {
					n = 2 // the same key twice: last entry wins
					w.mut("map-duplicate-key-entries")
				}
				for j := 0; j < n; j++ {
					val := e.V
					if j < n-1 {
						val = w.G.val(vfd, depth+2)
					}
					var parts [][]byte
					kp := w.single(kfd, e.K, depth)
					vp := w.single(vfd, val, depth)
					switch r.Intn(14) {
					case 0:
						parts = [][]byte{vp, kp}
						w.mut("map-entry-value-before-key")
					case 1:
						parts = [][]byte{vp} // key missing -> default key
						w.mut("map-entry-missing-key")
					case 2:
						parts = [][]byte{kp} // value missing -> default value
						w.mut("map-entry-missing-value")
					case 3:
						parts = nil // empty entry
						w.mut("map-entry-empty")
					case 4:
						parts = [][]byte{w.single(kfd, w.G.Scalar(kfd), depth), kp, vp}
						w.mut("map-entry-duplicate-key-field")
					case 5:
						parts = [][]byte{kp, w.single(vfd, w.G.val(vfd, depth+2), depth), vp}
						w.mut("map-entry-duplicate-value-field")
					case 6:
						if w.Unknown {
							// a foreign record inside the entry (numbers other than 1,2)
							u := w.G.UnknownRecord(fd.Message(), 0)
							parts = [][]byte{kp, u, vp}
							w.mut("map-entry-foreign-record")
						} else {
							parts = [][]byte{kp, vp}
						}
					default:
						parts = [][]byte{kp, vp}
					}
					chunks = append(chunks, w.lenDelim(nil, fd.Number(), concat(parts)))
				}
			}
		case fd.IsList():
			k := fd.Kind()
			if k == protoreflect.MessageKind || k == protoreflect.StringKind || k == protoreflect.BytesKind {
				var run []byte
				for _, v := range f.L {
					run = append(run, w.single(fd, v, depth)...)
				}
				// elements of one list must keep their relative order: one chunk, or split at element boundaries keeping order is not possible after shuffling -> single chunk
				chunks = append(chunks, run)
				continue
			}
			// packable scalars: split into runs, each run packed or unpacked; runs stay in order inside one chunk
			var run []byte
			i := 0
			for i < len(f.L) {
				n := 1 + r.Intn(len(f.L)-i)
				if r.Intn(3) == 0 {
					n = len(f.L) - i
				}
				seg := f.L[i : i+n]
				i += n
				packed := fd.IsPacked()
				if r.Intn(3) == 0 {
					packed = !packed
					w.mut("packed-unpacked-alternative")
				}
				if packed {
					var p []byte
					for _, v := range seg {
						p = w.scalarPayload(p, k, v)
					}
					run = append(run, w.lenDelim(nil, fd.Number(), p)...)
				} else {
					for _, v := range seg {
						run = append(run, w.single(fd, v, depth)...)
					}
				}
				if i < len(f.L) {
					w.mut("split-list-runs")
				}
			}
			if r.Intn(15) == 0 {
				run = append(run, w.lenDelim(nil, fd.Number(), nil)...) // empty packed run
				w.mut("empty-packed-run")
			}
			chunks = append(chunks, run)
		case inOneof(fd):
			if f.S == nil {
				continue
			}
			// a sequence of members; the last one is the value's member
			var run []byte
			ofs := fd.ContainingOneof().Fields()
			for n := r.Intn(3); n > 0; n-- {
				ofd := ofs.Get(r.Intn(ofs.Len()))
				if r.Intn(2) == 0 {
					ofd = fd // the same member again: message members merge
				}
				run = append(run, w.single(ofd, w.G.val(ofd, depth+2), depth)...)
				w.mut("oneof-member-sequence")
			}
			run = append(run, w.single(fd, *f.S, depth)...)
			chunks = append(chunks, run)
		case fd.Kind() == protoreflect.MessageKind:
			if f.S == nil {
				continue
			}
			sub := w.Chunks(f.S.M, depth+1)
			if len(sub) >= 2 && r.Intn(3) == 0 {
				// the singular message arrives in two occurrences that must merge
				cut := 1 + r.Intn(len(sub)-1)
				chunks = append(chunks, w.lenDelim(nil, fd.Number(), concat(sub[:cut])))
				chunks = append(chunks, w.lenDelim(nil, fd.Number(), concat(sub[cut:])))
				w.mut("singular-message-split")
			} else {
				if r.Intn(8) == 0 {
					// an earlier occurrence with other content
					chunks = append(chunks, w.single(fd, w.G.val(fd, depth+2), depth))
					w.mut("singular-message-duplicate")
				}
				chunks = append(chunks, w.lenDelim(nil, fd.Number(), w.shuffleJoin(sub, f.S.M, depth+1)))
			}
		default:
			if f.S == nil {
				continue
			}
			if r.Intn(6) == 0 {
				chunks = append(chunks, w.single(fd, w.G.Scalar(fd), depth))
				w.mut("scalar-duplicate")
			}
			chunks = append(chunks, w.single(fd, *f.S, depth))
		}
	}
	// an unpopulated singular scalar: some value first, then an explicit record of the zero value (last one wins:
	// the field ends up unset); one chunk, so that the two records keep their order
	if fs := m.D.Fields(); fs.Len() > 0 && r.Intn(5) == 0 {
		fd := fs.Get(r.Intn(fs.Len()))
		if m.Get(fd.Number()) == nil && !fd.IsList() && !fd.IsMap() && !inOneof(fd) && fd.Kind() != protoreflect.MessageKind && fd.Kind() != protoreflect.GroupKind && !fd.HasPresence() {
			run := append(w.single(fd, w.G.Scalar(fd), depth), w.single(fd, Val{}, depth)...)
			chunks = append(chunks, run)
			w.mut("scalar-then-explicit-zero")
		}
	}
	// unknown records already part of the value keep their order: one chunk
	if len(m.Unk) > 0 {
		chunks = append(chunks, m.Unk)
	}
	if w.Unknown && r.Intn(3) == 0 {
		for n := 1 + r.Intn(3); n > 0; n-- {
			chunks = append(chunks, w.unknownRecord(m.D))
			w.mut("unknown-record-injected/depth" + itoa(depth))
		}
	}
	return chunks
}

func itoa(i int) string {
	if i > 3 {
		return "4+"
	}
	return string(rune('0' + i))
}

func (w *WireGen) shuffleJoin(chunks [][]byte, m *Msg, depth int) []byte {
	if w.R.Intn(2) == 0 {
		w.R.Shuffle(len(chunks), func(i, j int) { chunks[i], chunks[j] = chunks[j], chunks[i] })
		if len(chunks) > 1 {
			w.mut("records-reordered")
		}
	}
	return concat(chunks)
}

// Stream renders m as one well-typed stream.
func (w *WireGen) Stream(m *Msg, depth int) []byte {
	return w.shuffleJoin(w.Chunks(m, depth), m, depth)
}

func cloneIR(m *Msg) *Msg {
	if m == nil {
		return nil
	}
	out := &Msg{D: m.D, Unk: append([]byte(nil), m.Unk...), Nil: m.Nil}
	cv := func(v Val) Val {
		return Val{U: v.U, B: append([]byte(nil), v.B...), M: cloneIR(v.M)}
	}
	for _, f := range m.F {
		nf := &FVal{FD: f.FD}
		if f.S != nil {
			v := cv(*f.S)
			nf.S = &v
		}
		for _, v := range f.L {
			nf.L = append(nf.L, cv(v))
		}
		for _, e := range f.M {
			nf.M = append(nf.M, KV{K: cv(e.K), V: cv(e.V)})
		}
		out.F = append(out.F, nf)
	}
	return out
}

// stripUnknown returns a copy of m without unknown fields at any depth.
func stripUnknown(m *Msg) *Msg {
	c := cloneIR(m)
	var walk func(x *Msg)
	walk = func(x *Msg) {
		if x == nil {
			return
		}
		x.Unk = nil
		for _, f := range x.F {
			if f.S != nil {
				walk(f.S.M)
			}
			for _, v := range f.L {
				walk(v.M)
			}
			for _, e := range f.M {
				walk(e.V.M)
			}
		}
	}
	walk(c)
	return c
}

// unknownLevels counts (levels with unknown bytes, total unknown bytes).
func unknownLevels(m *Msg) (levels, nbytes int) {
	if m == nil {
		return
	}
	if len(m.Unk) > 0 {
		levels++
		nbytes += len(m.Unk)
	}
	for _, f := range m.F {
		if f.S != nil {
			a, b := unknownLevels(f.S.M)
			levels, nbytes = levels+a, nbytes+b
		}
		for _, v := range f.L {
			a, b := unknownLevels(v.M)
			levels, nbytes = levels+a, nbytes+b
		}
		for _, e := range f.M {
			a, b := unknownLevels(e.V.M)
			levels, nbytes = levels+a, nbytes+b
		}
	}
	return
}

// unknownRecord: an unknown record whose tag is sometimes not minimally encoded (still valid wire format;
// it has to be kept byte for byte).
func (w *WireGen) unknownRecord(d MD) []byte {
	rec := w.G.UnknownRecord(d, 0)
	if !w.NonMin || w.R.Intn(5) != 0 {
		return rec
	}
	if glue.Lookup(d.FullName()) == nil {
		// protobuf-go's own generated types (well-known types) re-encode the tag of an unknown record
		// minimally when they store it; that is their behaviour, not the subject's
		return rec
	}
	t, n, err := consumeVarint(rec)
	if err != nil || t&7 == 3 { // groups: the end tag must stay consistent; leave them alone
		return rec
	}
	w.mut("unknown-record-non-minimal-tag")
	width := n + 1 + w.R.Intn(2)
	if width > 10 {
		width = 10
	}
	return append(appendVarintN(nil, t, width), rec[n:]...)
}
