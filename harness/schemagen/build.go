package main

import (
	"fmt"
	"strings"
	"unicode"

	"google.golang.org/protobuf/proto"
	"google.golang.org/protobuf/types/descriptorpb"
)

type T = descriptorpb.FieldDescriptorProto_Type

const (
	tDouble   = descriptorpb.FieldDescriptorProto_TYPE_DOUBLE
	tFloat    = descriptorpb.FieldDescriptorProto_TYPE_FLOAT
	tInt64    = descriptorpb.FieldDescriptorProto_TYPE_INT64
	tUint64   = descriptorpb.FieldDescriptorProto_TYPE_UINT64
	tInt32    = descriptorpb.FieldDescriptorProto_TYPE_INT32
	tFixed64  = descriptorpb.FieldDescriptorProto_TYPE_FIXED64
	tFixed32  = descriptorpb.FieldDescriptorProto_TYPE_FIXED32
	tBool     = descriptorpb.FieldDescriptorProto_TYPE_BOOL
	tString   = descriptorpb.FieldDescriptorProto_TYPE_STRING
	tMessage  = descriptorpb.FieldDescriptorProto_TYPE_MESSAGE
	tBytes    = descriptorpb.FieldDescriptorProto_TYPE_BYTES
	tUint32   = descriptorpb.FieldDescriptorProto_TYPE_UINT32
	tEnum     = descriptorpb.FieldDescriptorProto_TYPE_ENUM
	tSfixed32 = descriptorpb.FieldDescriptorProto_TYPE_SFIXED32
	tSfixed64 = descriptorpb.FieldDescriptorProto_TYPE_SFIXED64
	tSint32   = descriptorpb.FieldDescriptorProto_TYPE_SINT32
	tSint64   = descriptorpb.FieldDescriptorProto_TYPE_SINT64
)

var scalarTypes = []T{tDouble, tFloat, tInt64, tUint64, tInt32, tFixed64, tFixed32, tBool, tString, tBytes, tUint32, tSfixed32, tSfixed64, tSint32, tSint64}
var keyTypes = []T{tInt32, tInt64, tUint32, tUint64, tSint32, tSint64, tFixed32, tFixed64, tSfixed32, tSfixed64, tBool, tString}

func tname(t T) string { return strings.ToLower(strings.TrimPrefix(t.String(), "TYPE_")) }

func packable(t T) bool {
	switch t {
	case tString, tBytes, tMessage:
		return false
	}
	return true
}

// kindSpec: a field type incl. the referenced type name for message/enum.
type kindSpec struct {
	t    T
	name string // ".pkg.Type" for message/enum
	tag  string // short label
}

func scalarSpecs() []kindSpec {
	var o []kindSpec
	for _, t := range scalarTypes {
		o = append(o, kindSpec{t: t, tag: tname(t)})
	}
	return o
}

func jsonName(n string) string {
	var sb strings.Builder
	up := false
	for _, c := range n {
		if c == '_' {
			up = true
			continue
		}
		if up {
			sb.WriteRune(unicode.ToUpper(c))
			up = false
		} else {
			sb.WriteRune(c)
		}
	}
	return sb.String()
}

func camel(n string) string {
	// protoc's ToCamelCase for map entry names
	var sb strings.Builder
	up := true
	for _, c := range n {
		if c == '_' {
			up = true
			continue
		}
		if up {
			sb.WriteRune(unicode.ToUpper(c))
			up = false
		} else {
			sb.WriteRune(c)
		}
	}
	return sb.String()
}

func field(name string, num int32, k kindSpec) *descriptorpb.FieldDescriptorProto {
	f := &descriptorpb.FieldDescriptorProto{
		Name:     proto.String(name),
		Number:   proto.Int32(num),
		Label:    descriptorpb.FieldDescriptorProto_LABEL_OPTIONAL.Enum(),
		Type:     k.t.Enum(),
		JsonName: proto.String(jsonName(name)),
	}
	if k.name != "" {
		f.TypeName = proto.String(k.name)
	}
	return f
}

func repeated(f *descriptorpb.FieldDescriptorProto) *descriptorpb.FieldDescriptorProto {
	f.Label = descriptorpb.FieldDescriptorProto_LABEL_REPEATED.Enum()
	return f
}

func unpacked(f *descriptorpb.FieldDescriptorProto) *descriptorpb.FieldDescriptorProto {
	f.Label = descriptorpb.FieldDescriptorProto_LABEL_REPEATED.Enum()
	f.Options = &descriptorpb.FieldOptions{Packed: proto.Bool(false)}
	return f
}

func inOneof(f *descriptorpb.FieldDescriptorProto, idx int32) *descriptorpb.FieldDescriptorProto {
	f.OneofIndex = proto.Int32(idx)
	return f
}

type msgB struct {
	d    *descriptorpb.DescriptorProto
	full string // ".pkg.Outer.Name"
}

func newMsg(parentFull, name string) *msgB {
	return &msgB{d: &descriptorpb.DescriptorProto{Name: proto.String(name)}, full: parentFull + "." + name}
}

func (m *msgB) add(f *descriptorpb.FieldDescriptorProto) *msgB {
	m.d.Field = append(m.d.Field, f)
	return m
}

func (m *msgB) oneof(name string) int32 {
	m.d.OneofDecl = append(m.d.OneofDecl, &descriptorpb.OneofDescriptorProto{Name: proto.String(name)})
	return int32(len(m.d.OneofDecl) - 1)
}

// addMap adds map<k,v> name = num with its synthesized entry message.
func (m *msgB) addMap(name string, num int32, k T, v kindSpec) *msgB {
	en := camel(name) + "Entry"
	entry := &descriptorpb.DescriptorProto{
		Name: proto.String(en),
		Field: []*descriptorpb.FieldDescriptorProto{
			field("key", 1, kindSpec{t: k}),
			field("value", 2, v),
		},
		Options: &descriptorpb.MessageOptions{MapEntry: proto.Bool(true)},
	}
	m.d.NestedType = append(m.d.NestedType, entry)
	f := field(name, num, kindSpec{t: tMessage, name: m.full + "." + en})
	f.Label = descriptorpb.FieldDescriptorProto_LABEL_REPEATED.Enum()
	m.d.Field = append(m.d.Field, f)
	return m
}

func (m *msgB) nest(c *msgB) *msgB {
	m.d.NestedType = append(m.d.NestedType, c.d)
	return m
}

func (m *msgB) nestEnum(e *descriptorpb.EnumDescriptorProto) *msgB {
	m.d.EnumType = append(m.d.EnumType, e)
	return m
}

func enum(name string, vals ...interface{}) *descriptorpb.EnumDescriptorProto {
	e := &descriptorpb.EnumDescriptorProto{Name: proto.String(name)}
	for i := 0; i < len(vals); i += 2 {
		e.Value = append(e.Value, &descriptorpb.EnumValueDescriptorProto{Name: proto.String(vals[i].(string)), Number: proto.Int32(int32(vals[i+1].(int)))})
	}
	return e
}

type fileB struct {
	f *descriptorpb.FileDescriptorProto
}

// newFile: path zzgen/<gopkg>/<base>.proto, proto package pkg, go package zzgen/<gopkg>.
func newFile(gopkg, base, pkg string) *fileB {
	return &fileB{f: &descriptorpb.FileDescriptorProto{
		Name:    proto.String("zzgen/" + gopkg + "/" + base + ".proto"),
		Package: proto.String(pkg),
		Syntax:  proto.String("proto3"),
		Options: &descriptorpb.FileOptions{GoPackage: proto.String(module + "/zzgen/" + gopkg + ";" + gopkg)},
	}}
}

func (f *fileB) msg(m *msgB) *fileB {
	f.f.MessageType = append(f.f.MessageType, m.d)
	return f
}

func (f *fileB) enum(e *descriptorpb.EnumDescriptorProto) *fileB {
	f.f.EnumType = append(f.f.EnumType, e)
	return f
}

func (f *fileB) dep(names ...string) *fileB {
	for _, n := range names {
		have := false
		for _, d := range f.f.Dependency {
			if d == n {
				have = true
			}
		}
		if !have {
			f.f.Dependency = append(f.f.Dependency, n)
		}
	}
	return f
}

func goPkgPath(gopkg string) string { return module + "/zzgen/" + gopkg }

func simpleSet(name string, files ...*fileB) *Set {
	s := &Set{Name: name, Expect: "ok"}
	pk := map[string]bool{}
	for _, f := range files {
		s.files = append(s.files, f.f)
		s.Generate = append(s.Generate, f.f.GetName())
		gp := f.f.GetOptions().GetGoPackage()
		if i := strings.Index(gp, ";"); i >= 0 {
			gp = gp[:i]
		}
		if gp != "" && !pk[gp] {
			pk[gp] = true
			s.GoPackages = append(s.GoPackages, gp)
		}
		s.ExpectFiles = append(s.ExpectFiles, strings.TrimSuffix(f.f.GetName(), ".proto")+".pulsar.go")
	}
	return s
}

// field numbers per tag width (bytes of the tag varint for wire types 0..5)
var widthRanges = [][2]int32{{1, 15}, {16, 2047}, {2048, 262143}, {262144, 33554431}, {33554432, 536870911}}

// numbersForWidth returns n distinct field numbers whose tag needs w+1 bytes,
// including both boundaries of the range, skipping 19000..19999.
func numbersForWidth(w, n int) []int32 {
	lo, hi := widthRanges[w][0], widthRanges[w][1]
	var out []int32
	out = append(out, lo)
	if n > 1 {
		out = append(out, hi)
	}
	step := (hi - lo) / int32(n+1)
	if step < 1 {
		step = 1
	}
	x := lo + step
	for len(out) < n {
		if x >= hi {
			x = lo + 1 + int32(len(out))
		}
		if x >= 19000 && x <= 19999 {
			x = 20000
		}
		dup := false
		for _, o := range out {
			if o == x {
				dup = true
			}
		}
		if !dup {
			out = append(out, x)
		}
		x += step
	}
	return out
}

func must(err error) {
	if err != nil {
		panic(err)
	}
}

var _ = fmt.Sprintf

// addSourceInfo attaches a SourceCodeInfo to the file as protoc would: one location per element (syntax, package,
// imports, messages, fields, oneofs, nested types, enums, enum values, services, methods) with leading, trailing and
// detached comments.  The comment texts are hostile to a Go emitter (comment terminators, build-constraint look-alikes,
// tabs, non-ASCII, blank lines).
func addSourceInfo(fp *descriptorpb.FileDescriptorProto) {
	sci := &descriptorpb.SourceCodeInfo{}
	line := int32(0)
	texts := []string{
		" plain comment for %s\n",
		" two lines for %s\n second line */ not the end\n",
		" go:build ignore\n build ignore (%s)\n",
		"\ttabbed %s \u00e9\u4e16\u754c \\ backslash \"quoted\"\n",
		" %s\n\n blank line above\n",
		"/* %s */\n",
	}
	n := 0
	add := func(what string, path ...int32) {
		line += 3
		t := texts[n%len(texts)]
		n++
		loc := &descriptorpb.SourceCodeInfo_Location{Path: append([]int32{}, path...), Span: []int32{line, 0, line + 1, 1},
			LeadingComments: proto.String(fmt.Sprintf(t, what))}
		if n%2 == 0 {
			loc.TrailingComments = proto.String(fmt.Sprintf(" trailing for %s\n", what))
		}
		if n%3 == 0 {
			loc.LeadingDetachedComments = []string{fmt.Sprintf(" detached one (%s)\n", what), " detached two\n"}
		}
		sci.Location = append(sci.Location, loc)
	}
	add("syntax", 12)
	add("package "+fp.GetPackage(), 2)
	for i := range fp.Dependency {
		add("import", 3, int32(i))
	}
	var msg func(m *descriptorpb.DescriptorProto, path []int32)
	enumf := func(e *descriptorpb.EnumDescriptorProto, path []int32) {
		add("enum "+e.GetName(), path...)
		for i, v := range e.Value {
			add("value "+v.GetName(), append(append([]int32{}, path...), 2, int32(i))...)
		}
	}
	msg = func(m *descriptorpb.DescriptorProto, path []int32) {
		if m.GetOptions().GetMapEntry() {
			return
		}
		add("message "+m.GetName(), path...)
		for i, f := range m.Field {
			add("field "+f.GetName(), append(append([]int32{}, path...), 2, int32(i))...)
		}
		for i, o := range m.OneofDecl {
			add("oneof "+o.GetName(), append(append([]int32{}, path...), 8, int32(i))...)
		}
		for i, c := range m.NestedType {
			msg(c, append(append([]int32{}, path...), 3, int32(i)))
		}
		for i, e := range m.EnumType {
			enumf(e, append(append([]int32{}, path...), 4, int32(i)))
		}
	}
	for i, m := range fp.MessageType {
		msg(m, []int32{4, int32(i)})
	}
	for i, e := range fp.EnumType {
		enumf(e, []int32{5, int32(i)})
	}
	for i, sv := range fp.Service {
		add("service "+sv.GetName(), 6, int32(i))
		for j, me := range sv.Method {
			add("method "+me.GetName(), 6, int32(i), 2, int32(j))
		}
	}
	fp.SourceCodeInfo = sci
}
