package main

import (
	"fmt"
	"math/rand"

	"google.golang.org/protobuf/types/descriptorpb"
)

// randomSet builds a seeded random proto3 file set: 1-3 Go packages, 1-2 files
// each, messages with a random mix of all shapes, random field numbers across
// tag widths, nesting, recursion and imports (acyclic between files).
func randomSet(seed int64, k int) *Set {
	r := rand.New(rand.NewSource(seed*1000003 + int64(k)*7919 + 17))
	id := fmt.Sprintf("r%d", k)
	npk := 1 + r.Intn(3)
	type tref struct {
		spec kindSpec
		file string
	}
	var msgs []tref  // all message types declared so far (may be referenced by later messages)
	var enums []tref // all enums declared so far
	var files []*fileB
	wordPool := []string{"alpha", "beta", "gamma", "delta", "id", "name", "data", "value", "key", "list", "map", "type", "get", "set", "has", "size", "x", "n", "i", "l", "options", "count", "flag", "msg", "info", "state", "range", "clear", "new"}
	for p := 0; p < npk; p++ {
		gopkg := fmt.Sprintf("%sp%d", id, p)
		nf := 1 + r.Intn(2)
		for fi := 0; fi < nf; fi++ {
			pkg := fmt.Sprintf("vf.rnd.%s.p%d", id, p)
			f := newFile(gopkg, fmt.Sprintf("f%d", fi), pkg)
			fname := *f.f.Name
			// enums
			for e := r.Intn(3); e > 0; e-- {
				en := fmt.Sprintf("E%dx%d", fi, e)
				vals := []interface{}{fmt.Sprintf("%s_%s_ZERO", id, en), 0}
				used := map[int]bool{0: true}
				for v := 1 + r.Intn(4); v > 0; v-- {
					num := []int{1, 2, 3, 7, 100, -1, -5, 1 << 20, 2147483647}[r.Intn(9)]
					if used[num] {
						continue
					}
					used[num] = true
					vals = append(vals, fmt.Sprintf("%s_%s_V%d", id, en, len(vals)), num)
				}
				f.enum(enum(en, vals...))
				enums = append(enums, tref{kindSpec{t: tEnum, name: "." + pkg + "." + en, tag: "enum"}, fname})
			}
			// message shells first (so that messages of one file can refer to each other: recursion)
			nm := 2 + r.Intn(5)
			var shells []*msgB
			var localRefs []tref
			for mi := 0; mi < nm; mi++ {
				m := newMsg("."+pkg, fmt.Sprintf("M%dx%d", fi, mi))
				shells = append(shells, m)
				localRefs = append(localRefs, tref{kindSpec{t: tMessage, name: m.full, tag: "message"}, fname})
				// nested messages / enums
				if r.Intn(3) == 0 {
					nn := newMsg(m.full, "N")
					m.nest(nn)
					shells = append(shells, nn)
					localRefs = append(localRefs, tref{kindSpec{t: tMessage, name: nn.full, tag: "message"}, fname})
					if r.Intn(2) == 0 {
						ne := fmt.Sprintf("NE%dx%d", fi, mi)
						nn.nestEnum(enum(ne, fmt.Sprintf("%s_%s_Z", id, ne), 0, fmt.Sprintf("%s_%s_A", id, ne), 4))
						enums = append(enums, tref{kindSpec{t: tEnum, name: nn.full + "." + ne, tag: "enum"}, fname})
					}
				}
			}
			pickKind := func() kindSpec {
				switch x := r.Intn(10); {
				case x < 6:
					t := scalarTypes[r.Intn(len(scalarTypes))]
					return kindSpec{t: t, tag: tname(t)}
				case x < 7 && len(enums) > 0:
					e := enums[r.Intn(len(enums))]
					f.dep2(e.file)
					return e.spec
				default:
					all := append(append([]tref{}, msgs...), localRefs...)
					m := all[r.Intn(len(all))]
					f.dep2(m.file)
					return m.spec
				}
			}
			top := 0
			for _, m := range shells {
				nfld := 1 + r.Intn(9)
				used := map[int32]bool{}
				num := func() int32 {
					for {
						w := []int{0, 0, 0, 1, 1, 2, 3, 4}[r.Intn(8)]
						lo, hi := widthRanges[w][0], widthRanges[w][1]
						var x int32
						switch r.Intn(4) {
						case 0:
							x = lo
						case 1:
							x = hi
						default:
							x = lo + int32(r.Int63n(int64(hi-lo+1)))
						}
						if x >= 19000 && x <= 19999 {
							continue
						}
						if !used[x] {
							used[x] = true
							return x
						}
					}
				}
				fi2 := 0
				name := func() string {
					fi2++
					return fmt.Sprintf("%s_%d", wordPool[r.Intn(len(wordPool))], fi2)
				}
				for fi2 < nfld {
					switch x := r.Intn(20); {
					case x < 8:
						m.add(field(name(), num(), pickKind()))
					case x < 11:
						m.add(repeated(field(name(), num(), pickKind())))
					case x < 13:
						k := pickKind()
						if packable(k.t) {
							m.add(unpacked(field(name(), num(), k)))
						} else {
							m.add(repeated(field(name(), num(), k)))
						}
					case x < 16:
						kt := keyTypes[r.Intn(len(keyTypes))]
						m.addMap(name(), num(), kt, pickKind())
					default:
						oi := m.oneof(fmt.Sprintf("%s_choice_%d", wordPool[r.Intn(len(wordPool))], len(m.d.OneofDecl)))
						for c := 1 + r.Intn(4); c > 0; c-- {
							m.add(inOneof(field(name(), num(), pickKind()), oi))
						}
					}
				}
				_ = top
			}
			// only top-level shells are added to the file (nested ones hang below their parent)
			for _, m := range shells {
				if isTopLevel(m.full, pkg) {
					f.msg(m)
				}
			}
			msgs = append(msgs, localRefs...)
			files = append(files, f)
		}
	}
	s := simpleSet("random-"+id, files...)
	return s
}

func isTopLevel(full, pkg string) bool {
	rest := full[len(pkg)+2:]
	for _, c := range rest {
		if c == '.' {
			return false
		}
	}
	return true
}

// dep2 adds a dependency unless it is the file itself.
func (f *fileB) dep2(name string) {
	if name == *f.f.Name {
		return
	}
	f.dep(name)
}

var _ = descriptorpb.FieldDescriptorProto_TYPE_BOOL
