// schemagen builds the schema corpus (and seeded random schema sets) as
// CodeGeneratorRequest files for the plugin, and decodes the plugin's responses.
// protoc is not available, so descriptors are constructed programmatically and
// validated with protodesc.
package main

import (
	"encoding/json"
	"flag"
	"fmt"
	"os"
	"path/filepath"
	"sort"
	"strings"

	_ "github.com/cosmos/cosmos-proto" // registers cosmos_proto/cosmos.proto
	_ "github.com/cosmos/cosmos-proto/internal/testprotos/test3"
	_ "github.com/cosmos/cosmos-proto/testpb"
	"google.golang.org/protobuf/proto"
	"google.golang.org/protobuf/reflect/protodesc"
	"google.golang.org/protobuf/reflect/protoregistry"
	"google.golang.org/protobuf/types/descriptorpb"
	_ "google.golang.org/protobuf/types/known/anypb"
	_ "google.golang.org/protobuf/types/known/durationpb"
	_ "google.golang.org/protobuf/types/known/emptypb"
	_ "google.golang.org/protobuf/types/known/fieldmaskpb"
	_ "google.golang.org/protobuf/types/known/structpb"
	_ "google.golang.org/protobuf/types/known/timestamppb"
	_ "google.golang.org/protobuf/types/known/wrapperspb"
	"google.golang.org/protobuf/types/pluginpb"
)

const module = "github.com/cosmos/cosmos-proto"

type Set struct {
	Name       string   `json:"name"`
	Family     string   `json:"family"`
	Expect     string   `json:"expect"` // ok | error | any | nofile
	Parameter  string   `json:"parameter"`
	Generate   []string `json:"generate"`
	GoPackages []string `json:"go_packages"`
	Messages   int      `json:"messages"`
	Note       string   `json:"note,omitempty"`
	// ExpectFiles: names of generated files expected (ok sets)
	ExpectFiles []string `json:"expect_files"`
	files       []*descriptorpb.FileDescriptorProto
}

func main() {
	out := flag.String("out", "", "output dir for requests")
	seed := flag.Int64("seed", 1, "seed for random schema sets")
	nrand := flag.Int("random", 2, "number of random schema sets")
	fam := flag.String("families", "", "comma separated families (default all)")
	decode := flag.String("decode", "", "decode a CodeGeneratorResponse file")
	root := flag.String("root", "", "root to write decoded files under")
	write := flag.String("write", "1", "write decoded files")
	dump := flag.Bool("dump", false, "with -decode: print file contents as JSON instead of writing them")
	regen := flag.String("regenerate", "", "rewrite file_to_generate of a request file (prints the new request to stdout)")
	gens := flag.String("generate", "", "comma separated file_to_generate for -regenerate")
	param := flag.String("parameter", "\x00", "with -regenerate: replace the request's parameter string")
	origReq := flag.String("orig-requests", "", "write requests that regenerate the checked-in packages as they are (dir)")
	flag.Parse()
	if *origReq != "" {
		doOrigRequests(*origReq)
		return
	}
	if *regen != "" {
		b, err := os.ReadFile(*regen)
		if err != nil {
			panic(err)
		}
		var req pluginpb.CodeGeneratorRequest
		if err := proto.Unmarshal(b, &req); err != nil {
			panic(err)
		}
		if *gens != "" {
			req.FileToGenerate = strings.Split(*gens, ",")
		}
		if *param != "\x00" {
			req.Parameter = proto.String(*param)
		}
		out, _ := proto.Marshal(&req)
		os.Stdout.Write(out)
		return
	}
	if *decode != "" && *dump {
		b, err := os.ReadFile(*decode)
		if err != nil {
			panic(err)
		}
		var resp pluginpb.CodeGeneratorResponse
		if err := proto.Unmarshal(b, &resp); err != nil {
			fmt.Fprintln(os.Stderr, "response does not parse:", err)
			os.Exit(1)
		}
		type fc struct {
			Name    string `json:"name"`
			Content string `json:"content"`
		}
		var fs []fc
		for _, f := range resp.File {
			fs = append(fs, fc{f.GetName(), f.GetContent()})
		}
		o, _ := json.Marshal(map[string]interface{}{"files": fs, "error": resp.GetError()})
		os.Stdout.Write(o)
		return
	}
	if *decode != "" {
		doDecode(*decode, *root, *write == "1")
		return
	}
	want := map[string]bool{}
	for _, f := range strings.Split(*fam, ",") {
		if f != "" {
			want[f] = true
		}
	}
	var sets []*Set
	add := func(family string, f func() []*Set) {
		if len(want) > 0 && !want[family] {
			return
		}
		for _, s := range f() {
			s.Family = family
			sets = append(sets, s)
		}
	}
	add("matrix", matrixSets)
	add("small", smallSets)
	add("oneofs", oneofSets)
	add("optional", optionalSets)
	add("maps", mapSets)
	add("nest", nestSets)
	add("xpkg", xpkgSets)
	add("wkt", wktSets)
	add("names", nameSets)
	add("opts", optsSets)
	add("neg", negSets)
	add("regen", regenSets)
	add("random", func() []*Set {
		var o []*Set
		for i := 0; i < *nrand; i++ {
			o = append(o, randomSet(*seed, i))
		}
		return o
	})
	if err := os.MkdirAll(*out, 0o755); err != nil {
		panic(err)
	}
	for _, s := range sets {
		req, err := buildRequest(s)
		if err != nil {
			fmt.Fprintf(os.Stderr, "schemagen: set %s invalid: %v\n", s.Name, err)
			os.Exit(1)
		}
		b, err := proto.Marshal(req)
		if err != nil {
			panic(err)
		}
		if err := os.WriteFile(filepath.Join(*out, s.Name+".req"), b, 0o644); err != nil {
			panic(err)
		}
		// the schema as given to the generator (ground truth for descriptor comparisons)
		if s.Expect == "ok" {
			// (without source info: the registered descriptors never carry it)
			fset := &descriptorpb.FileDescriptorSet{}
			for _, f := range req.ProtoFile {
				c := proto.Clone(f).(*descriptorpb.FileDescriptorProto)
				c.SourceCodeInfo = nil
				fset.File = append(fset.File, c)
			}
			fb, _ := proto.Marshal(fset)
			if err := os.WriteFile(filepath.Join(*out, s.Name+".fds"), fb, 0o644); err != nil {
				panic(err)
			}
		}
	}
	mb, _ := json.MarshalIndent(map[string]interface{}{"sets": sets}, "", " ")
	if err := os.WriteFile(filepath.Join(*out, "manifest.json"), mb, 0o644); err != nil {
		panic(err)
	}
}

func doDecode(file, root string, write bool) {
	b, err := os.ReadFile(file)
	if err != nil {
		fmt.Fprintln(os.Stderr, err)
		os.Exit(1)
	}
	var resp pluginpb.CodeGeneratorResponse
	if err := proto.Unmarshal(b, &resp); err != nil {
		fmt.Fprintln(os.Stderr, "response does not parse:", err)
		os.Exit(1)
	}
	type fileInfo struct {
		Name string `json:"name"`
		Path string `json:"path"`
		Size int    `json:"size"`
	}
	var files []fileInfo
	for _, f := range resp.File {
		name := f.GetName()
		rel := strings.TrimPrefix(name, module+"/")
		p := filepath.Join(root, rel)
		if write && resp.Error == nil {
			if err := os.MkdirAll(filepath.Dir(p), 0o755); err != nil {
				panic(err)
			}
			if err := os.WriteFile(p, []byte(f.GetContent()), 0o644); err != nil {
				panic(err)
			}
		}
		files = append(files, fileInfo{Name: name, Path: rel, Size: len(f.GetContent())})
	}
	o, _ := json.Marshal(map[string]interface{}{"files": files, "error": resp.GetError()})
	os.Stdout.Write(o)
}

// buildRequest resolves dependencies (local files first, then the global
// registry for google/protobuf/* and cosmos_proto), orders files topologically,
// validates the whole set with protodesc and returns the request.
func buildRequest(s *Set) (*pluginpb.CodeGeneratorRequest, error) {
	local := map[string]*descriptorpb.FileDescriptorProto{}
	for _, f := range s.files {
		local[f.GetName()] = f
	}
	var ordered []*descriptorpb.FileDescriptorProto
	seen := map[string]bool{}
	var visit func(name string) error
	visit = func(name string) error {
		if seen[name] {
			return nil
		}
		seen[name] = true
		f := local[name]
		if f == nil {
			fd, err := protoregistry.GlobalFiles.FindFileByPath(name)
			if err != nil {
				return fmt.Errorf("dependency %s: %v", name, err)
			}
			f = protodesc.ToFileDescriptorProto(fd)
			if name == "cosmos_proto/cosmos.proto" {
				// the descriptor embedded in cosmos.pb.go was produced in buf managed mode;
				// proto/cosmos_proto/cosmos.proto itself says:
				f.Options.GoPackage = proto.String(module + ";cosmos_proto")
			}
		}
		for _, d := range f.Dependency {
			if err := visit(d); err != nil {
				return err
			}
		}
		ordered = append(ordered, f)
		return nil
	}
	names := make([]string, 0, len(local))
	for n := range local {
		names = append(names, n)
	}
	sort.Strings(names)
	for _, n := range names {
		if err := visit(n); err != nil {
			return nil, err
		}
	}
	if _, err := protodesc.NewFiles(&descriptorpb.FileDescriptorSet{File: ordered}); err != nil {
		return nil, err
	}
	req := &pluginpb.CodeGeneratorRequest{
		FileToGenerate:  s.Generate,
		ProtoFile:       ordered,
		CompilerVersion: &pluginpb.Version{Major: proto.Int32(3), Minor: proto.Int32(21), Patch: proto.Int32(12)},
	}
	if s.Parameter != "" {
		req.Parameter = proto.String(s.Parameter)
	}
	n := 0
	for _, f := range s.files {
		n += countMsgs(f.MessageType)
	}
	s.Messages = n
	return req, nil
}

func countMsgs(ms []*descriptorpb.DescriptorProto) int {
	n := 0
	for _, m := range ms {
		if m.GetOptions().GetMapEntry() {
			continue
		}
		n += 1 + countMsgs(m.NestedType)
	}
	return n
}

// doOrigRequests writes one request per checked-in package, built from the
// registered descriptors unchanged (paths=source_relative as in buf.gen.yaml).
func doOrigRequests(dir string) {
	groups := map[string][]string{
		"orig-testpb": {"1.proto", "2.proto", "3.proto"},
		"orig-test3":  {"internal/testprotos/test3/test.proto", "internal/testprotos/test3/test_import.proto", "internal/testprotos/test3/test_nesting.proto"},
	}
	if err := os.MkdirAll(dir, 0o755); err != nil {
		panic(err)
	}
	for name, paths := range groups {
		s := &Set{Name: name, Expect: "ok", Parameter: "paths=source_relative", Generate: paths}
		for _, p := range paths {
			fd, err := protoregistry.GlobalFiles.FindFileByPath(p)
			if err != nil {
				panic(err)
			}
			s.files = append(s.files, protodesc.ToFileDescriptorProto(fd))
		}
		req, err := buildRequest(s)
		if err != nil {
			panic(err)
		}
		b, _ := proto.Marshal(req)
		if err := os.WriteFile(filepath.Join(dir, name+".req"), b, 0o644); err != nil {
			panic(err)
		}
	}
}
