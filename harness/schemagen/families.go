package main

import (
	"fmt"
	"google.golang.org/protobuf/encoding/protowire"
	"strings"

	cosmos_proto "github.com/cosmos/cosmos-proto"
	"google.golang.org/protobuf/proto"
	"google.golang.org/protobuf/reflect/protodesc"
	"google.golang.org/protobuf/reflect/protoregistry"
	"google.golang.org/protobuf/types/descriptorpb"
)

// commonTypes adds a Leaf message and an enum E to a file and returns their specs.
func commonTypes(f *fileB, pkg string) (leaf kindSpec, en kindSpec) {
	lm := newMsg("."+pkg, "Leaf")
	lm.add(field("a", 1, kindSpec{t: tInt32}))
	lm.add(field("s", 2, kindSpec{t: tString}))
	lm.add(field("child", 3, kindSpec{t: tMessage, name: "." + pkg + ".Leaf"}))
	lm.add(repeated(field("r", 4, kindSpec{t: tSint64})))
	lm.addMap("m", 5, tString, kindSpec{t: tBytes})
	f.msg(lm)
	f.enum(enum("E", "E_ZERO", 0, "E_ONE", 1, "E_NEG", -1, "E_TEN", 10, "E_BIG", 2147483647, "E_MIN", -2147483648))
	return kindSpec{t: tMessage, name: "." + pkg + ".Leaf", tag: "message"}, kindSpec{t: tEnum, name: "." + pkg + ".E", tag: "enum"}
}

func allKinds(leaf, en kindSpec) []kindSpec {
	return append(scalarSpecs(), en, leaf)
}

// ---------------------------------------------------------------------------
// matrix: every kind x {singular, packed, unpacked, oneof} x tag width; maps: every key x value kind

func matrixSets() []*Set {
	var sets []*Set
	for w := 0; w < 5; w++ {
		gp := fmt.Sprintf("matw%d", w+1)
		pkg := "vf.matrix.w" + fmt.Sprint(w+1)
		f := newFile(gp, "matrix", pkg)
		leaf, en := commonTypes(f, pkg)
		kinds := allKinds(leaf, en)
		// chunks of at most 7 kinds so that width 1 (numbers 1..15) fits two per message
		for ci, lo := 0, 0; lo < len(kinds); ci, lo = ci+1, lo+7 {
			hi := lo + 7
			if hi > len(kinds) {
				hi = len(kinds)
			}
			chunk := kinds[lo:hi]
			nums := numbersForWidth(w, 2*len(chunk))
			s := newMsg("."+pkg, fmt.Sprintf("S%d", ci))
			r := newMsg("."+pkg, fmt.Sprintf("R%d", ci))
			o := newMsg("."+pkg, fmt.Sprintf("O%d", ci))
			oi := o.oneof("choice")
			oj := o.oneof("other")
			for i, k := range chunk {
				s.add(field("s_"+k.tag, nums[i], k))
				// second copy with another number: exercises two fields of the same kind
				r.add(repeated(field("r_"+k.tag, nums[i], k)))
				if packable(k.t) {
					r.add(unpacked(field("u_"+k.tag, nums[len(chunk)+i], k)))
				}
				o.add(inOneof(field("o_"+k.tag, nums[i], k), oi))
			}
			for i, k := range chunk {
				o.add(inOneof(field("p_"+k.tag, nums[len(chunk)+i], k), oj))
			}
			f.msg(s).msg(r).msg(o)
		}
		sets = append(sets, simpleSet("matrix-w"+fmt.Sprint(w+1), f))
	}
	// maps: 12 key kinds x 17 value kinds, 3 key kinds per package
	for pi := 0; pi < 4; pi++ {
		gp := fmt.Sprintf("matm%d", pi+1)
		pkg := "vf.matrix.m" + fmt.Sprint(pi+1)
		f := newFile(gp, "maps", pkg)
		leaf, en := commonTypes(f, pkg)
		kinds := allKinds(leaf, en)
		for _, kt := range keyTypes[pi*3 : pi*3+3] {
			m := newMsg("."+pkg, "K"+camel(tname(kt)))
			for i, v := range kinds {
				w := i % 5
				nums := numbersForWidth(w, len(kinds))
				m.addMap("m_"+v.tag, nums[i], kt, v)
			}
			f.msg(m)
		}
		sets = append(sets, simpleSet("matrix-m"+fmt.Sprint(pi+1), f))
	}
	return sets
}

// ---------------------------------------------------------------------------
// small: one compact all-shapes message for the bounded-exhaustive history enumeration of C08

func smallSets() []*Set {
	pkg := "vf.small"
	f := newFile("small", "small", pkg)
	leaf := newMsg("."+pkg, "Leaf")
	leaf.add(field("a", 1, kindSpec{t: tInt32}))
	f.msg(leaf)
	lf := kindSpec{t: tMessage, name: "." + pkg + ".Leaf", tag: "message"}
	m := newMsg("."+pkg, "Small")
	m.add(field("i", 1, kindSpec{t: tInt32}))
	m.add(field("b", 2, kindSpec{t: tBytes}))
	m.add(field("m", 3, lf))
	m.add(repeated(field("li", 4, kindSpec{t: tSint32})))
	m.add(repeated(field("lm", 5, lf)))
	m.addMap("mi", 6, tString, kindSpec{t: tInt64})
	m.addMap("mm", 7, tInt32, lf)
	o := m.oneof("o")
	m.add(inOneof(field("oz", 8, kindSpec{t: tSint32}), o))
	m.add(inOneof(field("os", 9, kindSpec{t: tString}), o))
	m.add(inOneof(field("om", 10, lf), o))
	m.add(field("f", 11, kindSpec{t: tDouble}))
	f.msg(m)
	return []*Set{simpleSet("small", f)}
}

// ---------------------------------------------------------------------------
// proto3 optional: explicit presence for every kind (synthetic oneofs), next to real oneofs and implicit-presence
// twins, field numbers of every tag width

func optional3(m *msgB, f *descriptorpb.FieldDescriptorProto) *descriptorpb.FieldDescriptorProto {
	f.Proto3Optional = proto.Bool(true)
	f.OneofIndex = proto.Int32(m.oneof("_" + f.GetName())) // synthetic oneofs come after the real ones (callers add real ones first)
	return f
}

func optionalSets() []*Set {
	pkg := "vf.opt3"
	f := newFile("opt3", "opt3", pkg)
	leaf, en := commonTypes(f, pkg)
	kinds := allKinds(leaf, en)
	m := newMsg("."+pkg, "Opt")
	ch := m.oneof("choice")
	m.add(inOneof(field("c_text", 3, kindSpec{t: tString}), ch))
	m.add(inOneof(field("c_num", 70000, kindSpec{t: tSint32}), ch))
	m.add(inOneof(field("c_leaf", 4, leaf), ch))
	for i, k := range kinds {
		lo := widthRanges[i%5][0]
		m.add(optional3(m, field("o_"+k.tag, lo+int32(10+2*i), k)))
		m.add(field("p_"+k.tag, lo+int32(11+2*i), k))
	}
	m.add(repeated(field("children", 2, kindSpec{t: tMessage, name: "." + pkg + ".Opt"})))
	m.addMap("by_name", 5, tString, kindSpec{t: tMessage, name: "." + pkg + ".Opt"})
	f.msg(m)
	// only optional fields, out of number order
	o := newMsg("."+pkg, "OnlyOptional")
	o.add(optional3(o, field("z", 9, kindSpec{t: tBytes})))
	o.add(optional3(o, field("a", 1, kindSpec{t: tBool})))
	o.add(optional3(o, field("m", 5, kindSpec{t: tMessage, name: "." + pkg + ".OnlyOptional"})))
	o.add(optional3(o, field("e", 2, en)))
	o.add(optional3(o, field("d", 536870911, kindSpec{t: tDouble})))
	f.msg(o)
	return []*Set{simpleSet("optional3", f)}
}

// ---------------------------------------------------------------------------
// oneofs: several oneofs interleaved with plain fields, numbers out of order

func oneofSets() []*Set {
	pkg := "vf.oneofs"
	f := newFile("oneofs", "oneofs", pkg)
	leaf, en := commonTypes(f, pkg)
	kinds := allKinds(leaf, en)

	// interleaved: declaration order != number order; members below and above plain fields
	m := newMsg("."+pkg, "Interleaved")
	m.add(field("plain_hi", 50, kindSpec{t: tString}))
	a := m.oneof("first")
	m.add(inOneof(field("a_big", 100, kindSpec{t: tInt64}), a))
	m.add(inOneof(field("a_small", 2, kindSpec{t: tString}), a))
	m.add(inOneof(field("a_late", 5, en), a))
	m.add(field("plain_lo", 1, kindSpec{t: tInt32}))
	b := m.oneof("second")
	m.add(inOneof(field("b_low", 3, kindSpec{t: tBytes}), b))
	m.add(inOneof(field("b_msg", 2047, leaf), b))
	m.add(repeated(field("plain_list", 40, kindSpec{t: tSint32})))
	c := m.oneof("third")
	m.add(inOneof(field("c_only", 4, kindSpec{t: tBool}), c))
	m.addMap("plain_map", 30, tInt32, kindSpec{t: tString})
	m.add(field("plain_mid", 20, kindSpec{t: tDouble}))
	f.msg(m)

	// every kind as a member, twice (two oneofs), one oneof declared before and one after plain fields
	e := newMsg("."+pkg, "Every")
	x := e.oneof("x")
	for i, k := range kinds {
		e.add(inOneof(field("x_"+k.tag, int32(100+i), k), x))
	}
	e.add(field("between", 1, kindSpec{t: tUint64}))
	y := e.oneof("y")
	for i, k := range kinds {
		e.add(inOneof(field("y_"+k.tag, int32(10+i), k), y))
	}
	f.msg(e)

	// single-member oneofs
	sm := newMsg("."+pkg, "Singles")
	for i, k := range []kindSpec{{t: tSint32, tag: "sint32"}, {t: tSint64, tag: "sint64"}, {t: tFixed32, tag: "fixed32"}, {t: tSfixed64, tag: "sfixed64"}, leaf, en, {t: tBytes, tag: "bytes"}, {t: tFloat, tag: "float"}} {
		oi := sm.oneof("only_" + k.tag)
		sm.add(inOneof(field("v_"+k.tag, int32(i+1), k), oi))
	}
	f.msg(sm)

	// oneof whose message member is the enclosing type (recursion through oneof)
	rc := newMsg("."+pkg, "Rec")
	ro := rc.oneof("kind")
	rc.add(inOneof(field("self", 1, kindSpec{t: tMessage, name: "." + pkg + ".Rec"}), ro))
	rc.add(inOneof(field("num", 2, kindSpec{t: tSint64}), ro))
	rc.add(inOneof(field("txt", 3, kindSpec{t: tString}), ro))
	rc.add(field("tail", 4, kindSpec{t: tInt32}))
	f.msg(rc)
	return []*Set{simpleSet("oneofs", f)}
}

// ---------------------------------------------------------------------------
// maps at depth (for C05) and imported message values

func mapSets() []*Set {
	pkg := "vf.maps"
	f := newFile("mapsd", "mapsd", pkg)
	leaf, en := commonTypes(f, pkg)
	_ = en
	inner := newMsg("."+pkg, "Inner")
	inner.addMap("by_name", 1, tString, kindSpec{t: tInt64})
	inner.addMap("by_id", 2, tSint32, kindSpec{t: tString})
	inner.addMap("flags", 3, tBool, kindSpec{t: tBytes})
	inner.add(field("deeper", 4, kindSpec{t: tMessage, name: "." + pkg + ".Inner"}))
	f.msg(inner)
	in := kindSpec{t: tMessage, name: "." + pkg + ".Inner", tag: "message"}
	outer := newMsg("."+pkg, "Outer")
	outer.add(field("one", 1, in))
	outer.add(repeated(field("many", 2, in)))
	outer.addMap("keyed", 3, tUint64, in)
	oo := outer.oneof("pick")
	outer.add(inOneof(field("picked", 4, in), oo))
	outer.add(inOneof(field("other", 5, kindSpec{t: tString}), oo))
	outer.addMap("leafs", 6, tFixed32, leaf)
	outer.addMap("neg", 7, tInt64, kindSpec{t: tInt32})
	outer.addMap("zig", 8, tSint64, kindSpec{t: tSint32})
	outer.addMap("sf", 9, tSfixed32, kindSpec{t: tSfixed64})
	outer.addMap("str", 10, tString, kindSpec{t: tString})
	f.msg(outer)
	return []*Set{simpleSet("maps-depth", f)}
}

// ---------------------------------------------------------------------------
// nesting / recursion

func nestSets() []*Set {
	pkg := "vf.nest"
	f := newFile("nest", "nest", pkg)
	l1 := newMsg("."+pkg, "L1")
	l2 := newMsg(l1.full, "L2")
	l3 := newMsg(l2.full, "L3")
	l4 := newMsg(l3.full, "L4")
	l4.add(field("v", 1, kindSpec{t: tString}))
	l4.add(field("up", 2, kindSpec{t: tMessage, name: l1.full}))
	l4.nestEnum(enum("Deep", "DEEP_ZERO", 0, "DEEP_ONE", 1))
	l4.add(field("e", 3, kindSpec{t: tEnum, name: l4.full + ".Deep"}))
	l3.nest(l4)
	l3.add(field("l4", 1, kindSpec{t: tMessage, name: l4.full}))
	l3.add(repeated(field("l4s", 2, kindSpec{t: tMessage, name: l4.full})))
	l2.nest(l3)
	l2.add(field("l3", 1, kindSpec{t: tMessage, name: l3.full}))
	l2.addMap("l3m", 2, tString, kindSpec{t: tMessage, name: l3.full})
	l2.nestEnum(enum("Mid", "MID_ZERO", 0, "MID_TWO", 2))
	l1.nest(l2)
	l1.add(field("l2", 1, kindSpec{t: tMessage, name: l2.full}))
	l1.add(field("mid", 2, kindSpec{t: tEnum, name: l2.full + ".Mid"}))
	f.msg(l1)
	// mutual recursion
	a := newMsg("."+pkg, "Ping")
	b := newMsg("."+pkg, "Pong")
	a.add(field("pong", 1, kindSpec{t: tMessage, name: b.full}))
	a.add(repeated(field("pongs", 2, kindSpec{t: tMessage, name: b.full})))
	a.add(field("n", 3, kindSpec{t: tInt32}))
	b.add(field("ping", 1, kindSpec{t: tMessage, name: a.full}))
	b.addMap("pings", 2, tInt32, kindSpec{t: tMessage, name: a.full})
	b.add(field("s", 3, kindSpec{t: tString}))
	f.msg(a).msg(b)
	// self recursion through list, map and singular
	t := newMsg("."+pkg, "Tree")
	t.add(field("left", 1, kindSpec{t: tMessage, name: t.full}))
	t.add(repeated(field("kids", 2, kindSpec{t: tMessage, name: t.full})))
	t.addMap("named", 3, tString, kindSpec{t: tMessage, name: t.full})
	t.add(field("label", 4, kindSpec{t: tBytes}))
	f.msg(t)
	// nested messages sharing a short name under different parents
	for _, pn := range []string{"Alpha", "Beta", "Gamma"} {
		pm := newMsg("."+pkg, pn)
		in := newMsg(pm.full, "Inner")
		in.add(field("v_"+strings.ToLower(pn), 1, kindSpec{t: tString}))
		in.add(repeated(field("nums", 2, kindSpec{t: tSint64})))
		in.nestEnum(enum("Kind", strings.ToUpper(pn)+"_KIND_ZERO", 0, strings.ToUpper(pn)+"_KIND_ONE", 1))
		pm.nest(in)
		pm.add(field("inner", 1, kindSpec{t: tMessage, name: in.full}))
		pm.add(field("kind", 2, kindSpec{t: tEnum, name: in.full + ".Kind"}))
		f.msg(pm)
	}
	// message without fields, message with only a nested enum
	f.msg(newMsg("."+pkg, "Empty"))
	h := newMsg("."+pkg, "HasEmpty")
	h.add(field("e", 1, kindSpec{t: tMessage, name: "." + pkg + ".Empty"}))
	h.add(repeated(field("es", 2, kindSpec{t: tMessage, name: "." + pkg + ".Empty"})))
	h.addMap("em", 3, tBool, kindSpec{t: tMessage, name: "." + pkg + ".Empty"})
	ho := h.oneof("which")
	h.add(inOneof(field("oe", 4, kindSpec{t: tMessage, name: "." + pkg + ".Empty"}), ho))
	h.add(inOneof(field("oe2", 5, kindSpec{t: tMessage, name: "." + pkg + ".Empty"}), ho))
	h.add(inOneof(field("os", 6, kindSpec{t: tString}), ho))
	f.msg(h)
	// enums at different nesting depths, in an order in which depth-first and breadth-first numbering differ:
	// an enum inside a nested message of one top-level message, then enums directly inside later messages
	eo1 := newMsg("."+pkg, "EnumOuter1")
	emid := newMsg(eo1.full, "Mid")
	edeep := newMsg(emid.full, "Deep")
	edeep.nestEnum(enum("EC", "EC_ZERO", 0, "EC_PAID", 1, "EC_VOID", 2))
	edeep.add(field("state", 1, kindSpec{t: tEnum, name: edeep.full + ".EC"}))
	emid.nest(edeep)
	emid.nestEnum(enum("EM", "EM_ZERO", 0, "EM_OPEN", 1))
	emid.add(field("deep", 1, kindSpec{t: tMessage, name: edeep.full}))
	emid.add(field("m", 2, kindSpec{t: tEnum, name: emid.full + ".EM"}))
	eo1.nest(emid)
	eo1.add(field("mid", 1, kindSpec{t: tMessage, name: emid.full}))
	f.msg(eo1)
	eo2 := newMsg("."+pkg, "EnumOuter2")
	eo2.nestEnum(enum("ED", "ED_ZERO", 0, "ED_LARGE", 1, "ED_SMALL", 2, "ED_HUGE", 3))
	eo2.add(field("size", 1, kindSpec{t: tEnum, name: eo2.full + ".ED"}))
	eo2.add(repeated(field("history", 2, kindSpec{t: tEnum, name: eo2.full + ".ED"})))
	eo2.add(field("state", 3, kindSpec{t: tEnum, name: edeep.full + ".EC"}))
	eo2.add(field("m", 4, kindSpec{t: tEnum, name: emid.full + ".EM"}))
	eo2.addMap("by_name", 5, tString, kindSpec{t: tEnum, name: edeep.full + ".EC"})
	f.msg(eo2)
	// a message whose only content is a oneof
	oo := newMsg("."+pkg, "OnlyOneof")
	ooi := oo.oneof("sum")
	oo.add(inOneof(field("left", 1, kindSpec{t: tMessage, name: "." + pkg + ".OnlyOneof"}), ooi))
	oo.add(inOneof(field("right", 2, kindSpec{t: tBytes}), ooi))
	f.msg(oo)
	return []*Set{simpleSet("nest", f)}
}

// ---------------------------------------------------------------------------
// cross-package graphs, M mappings, paths=source_relative

func xpkgEnumOnly() *fileB {
	e := newFile("xa", "e", "vf.xpkg.a")
	e.enum(enum("Shade", "SHADE_UNSPECIFIED", 0, "SHADE_DARK", 1, "SHADE_LIGHT", 2))
	return e
}

func xpkgFiles() (a1, a2, b, c *fileB) {
	a1 = newFile("xa", "a1", "vf.xpkg.a")
	// (declared out of numeric order: the first value is not the smallest)
	a1.enum(enum("Color", "COLOR_UNSPECIFIED", 0, "COLOR_RED", 1, "COLOR_BELOW", -1, "COLOR_BLUE", 5, "COLOR_LOW", -7))
	am := newMsg(".vf.xpkg.a", "Base")
	am.add(field("id", 1, kindSpec{t: tUint64}))
	am.add(field("color", 2, kindSpec{t: tEnum, name: ".vf.xpkg.a.Color"}))
	am.add(field("type", 3, kindSpec{t: tString})) // a name the fast-reflection type needs for itself, in several files of one request
	am.nest(func() *msgB {
		n := newMsg(am.full, "Inner")
		n.add(field("x", 1, kindSpec{t: tSint32}))
		return n
	}())
	a1.msg(am)
	// second file of the same proto package and Go package
	a2 = newFile("xa", "a2", "vf.xpkg.a").dep(*a1.f.Name)
	a2m := newMsg(".vf.xpkg.a", "Second")
	a2m.add(field("base", 1, kindSpec{t: tMessage, name: ".vf.xpkg.a.Base"}))
	a2m.add(field("inner", 2, kindSpec{t: tMessage, name: ".vf.xpkg.a.Base.Inner"}))
	a2m.add(repeated(field("colors", 3, kindSpec{t: tEnum, name: ".vf.xpkg.a.Color"})))
	a2m.add(field("color", 4, kindSpec{t: tEnum, name: ".vf.xpkg.a.Color"}))
	a2m.add(field("type", 5, kindSpec{t: tSint32}))
	a2.msg(a2m)
	b = newFile("xb", "b", "vf.xpkg.b").dep(*a1.f.Name, *a2.f.Name, *xpkgEnumOnly().f.Name)
	bm := newMsg(".vf.xpkg.b", "UsesA")
	bm.add(field("shade", 7, kindSpec{t: tEnum, name: ".vf.xpkg.a.Shade"}))
	bm.add(repeated(field("shades", 8, kindSpec{t: tEnum, name: ".vf.xpkg.a.Shade"})))
	bm.add(field("base", 1, kindSpec{t: tMessage, name: ".vf.xpkg.a.Base"}))
	bm.add(repeated(field("seconds", 2, kindSpec{t: tMessage, name: ".vf.xpkg.a.Second"})))
	bm.addMap("by_color", 3, tInt32, kindSpec{t: tEnum, name: ".vf.xpkg.a.Color"})
	bm.addMap("inners", 4, tString, kindSpec{t: tMessage, name: ".vf.xpkg.a.Base.Inner"})
	bo := bm.oneof("which")
	bm.add(inOneof(field("w_base", 5, kindSpec{t: tMessage, name: ".vf.xpkg.a.Base"}), bo))
	bm.add(inOneof(field("w_color", 6, kindSpec{t: tEnum, name: ".vf.xpkg.a.Color"}), bo))
	bm.add(field("type", 9, kindSpec{t: tBytes}))
	bm.add(field("get", 10, kindSpec{t: tEnum, name: ".vf.xpkg.a.Color"}))
	b.msg(bm)
	c = newFile("xc", "c", "vf.xpkg.c").dep(*a1.f.Name, *b.f.Name)
	cm := newMsg(".vf.xpkg.c", "UsesAB")
	cm.add(field("b", 1, kindSpec{t: tMessage, name: ".vf.xpkg.b.UsesA"}))
	cm.add(field("a", 2, kindSpec{t: tMessage, name: ".vf.xpkg.a.Base"}))
	cm.add(unpacked(field("colors", 3, kindSpec{t: tEnum, name: ".vf.xpkg.a.Color"})))
	cm.add(field("type", 4, kindSpec{t: tEnum, name: ".vf.xpkg.a.Color"}))
	cm.add(field("descriptor", 5, kindSpec{t: tString}))
	c.msg(cm)
	return
}

func xpkgSets() []*Set {
	a1, a2, b, c := xpkgFiles()
	eo := xpkgEnumOnly()
	// source info (comments on every element, incl. the syntax and package statements) as protoc supplies it
	for _, f := range []*fileB{a1, a2, eo, b, c} {
		addSourceInfo(f.f)
	}
	all := simpleSet("xpkg-all", a1, a2, eo, b, c)
	// M mapping + source_relative: a file without go_package
	mf := &fileB{f: &descriptorpb.FileDescriptorProto{
		Name: proto.String("zzgen/xm/m.proto"), Package: proto.String("vf.xpkg.m"), Syntax: proto.String("proto3"),
	}}
	mm := newMsg(".vf.xpkg.m", "Mapped")
	mm.add(field("v", 1, kindSpec{t: tString}))
	mm.add(field("again", 2, kindSpec{t: tMessage, name: ".vf.xpkg.m.Mapped"}))
	mf.msg(mm)
	ms := &Set{Name: "xpkg-mflag", Expect: "ok", Parameter: "paths=source_relative,Mzzgen/xm/m.proto=" + goPkgPath("xm") + ";xm",
		Generate: []string{"zzgen/xm/m.proto"}, GoPackages: []string{goPkgPath("xm")}, ExpectFiles: []string{"zzgen/xm/m.pulsar.go"}}
	ms.files = append(ms.files, mf.f)
	// explicit features=fast+protoc (the same as all) with source_relative on a go_package file
	sf := newFile("xs", "s", "vf.xpkg.s")
	sm := newMsg(".vf.xpkg.s", "Rel")
	sm.add(field("v", 1, kindSpec{t: tBytes}))
	sm.add(repeated(field("rs", 2, kindSpec{t: tFixed64})))
	sf.msg(sm)
	ss := simpleSet("xpkg-srcrel", sf)
	ss.Parameter = "paths=source_relative,features=fast+protoc"
	ss.ExpectFiles = []string{"zzgen/xs/s.pulsar.go"}
	// two Go packages with the same package name under different import paths
	vb := &fileB{f: &descriptorpb.FileDescriptorProto{
		Name: proto.String("zzgen/xbase/v1/coin.proto"), Package: proto.String("vf.xpkg.base.v1"), Syntax: proto.String("proto3"),
		Options: &descriptorpb.FileOptions{GoPackage: proto.String(goPkgPath("xbase/v1") + ";v1")},
	}}
	coin := newMsg(".vf.xpkg.base.v1", "Coin")
	coin.add(field("denom", 1, kindSpec{t: tString}))
	coin.add(field("amount", 2, kindSpec{t: tUint64}))
	vb.msg(coin)
	vb.enum(enum("Unit", "UNIT_UNSPECIFIED", 0, "UNIT_MICRO", 6))
	vk := &fileB{f: &descriptorpb.FileDescriptorProto{
		Name: proto.String("zzgen/xbank/v1/bank.proto"), Package: proto.String("vf.xpkg.bank.v1"), Syntax: proto.String("proto3"),
		Options:    &descriptorpb.FileOptions{GoPackage: proto.String(goPkgPath("xbank/v1") + ";v1")},
		Dependency: []string{"zzgen/xbase/v1/coin.proto"},
	}}
	send := newMsg(".vf.xpkg.bank.v1", "Send")
	send.add(repeated(field("coins", 1, kindSpec{t: tMessage, name: ".vf.xpkg.base.v1.Coin"})))
	send.add(field("unit", 2, kindSpec{t: tEnum, name: ".vf.xpkg.base.v1.Unit"}))
	send.addMap("by_denom", 3, tString, kindSpec{t: tMessage, name: ".vf.xpkg.base.v1.Coin"})
	vk.msg(send)
	same := simpleSet("xpkg-same-go-name", vb, vk)
	// import public: c imports only b, b publicly imports a, c uses a's types; explicit options that do not change
	// the encoding ([packed=true], lazy, deprecated, jstype), reserved ranges and names
	pa := newFile("xpa", "a", "vf.xpub.a")
	am := newMsg(".vf.xpub.a", "Origin")
	am.add(field("id", 1, kindSpec{t: tFixed64}))
	an := newMsg(am.full, "Part")
	an.add(field("w", 1, kindSpec{t: tSint32}))
	am.nest(an)
	am.d.ReservedRange = []*descriptorpb.DescriptorProto_ReservedRange{{Start: proto.Int32(5), End: proto.Int32(10)}, {Start: proto.Int32(100), End: proto.Int32(101)}}
	am.d.ReservedName = []string{"old_name", "older"}
	pa.msg(am)
	ae := enum("Grade", "GRADE_UNSPECIFIED", 0, "GRADE_A", 1, "GRADE_B", 2)
	ae.ReservedRange = []*descriptorpb.EnumDescriptorProto_EnumReservedRange{{Start: proto.Int32(7), End: proto.Int32(9)}}
	ae.ReservedName = []string{"GRADE_OLD"}
	pa.enum(ae)
	pb := newFile("xpb", "b", "vf.xpub.b")
	pb.dep("zzgen/xpa/a.proto")
	pb.f.PublicDependency = []int32{0}
	bm := newMsg(".vf.xpub.b", "Relay")
	bm.add(field("origin", 1, kindSpec{t: tMessage, name: ".vf.xpub.a.Origin"}))
	pb.msg(bm)
	pc := newFile("xpc", "c", "vf.xpub.c")
	pc.dep("zzgen/xpb/b.proto")
	cm := newMsg(".vf.xpub.c", "User")
	cm.add(field("relay", 1, kindSpec{t: tMessage, name: ".vf.xpub.b.Relay"}))
	cm.add(field("origin", 2, kindSpec{t: tMessage, name: ".vf.xpub.a.Origin"}))
	cm.add(repeated(field("parts", 3, kindSpec{t: tMessage, name: ".vf.xpub.a.Origin.Part"})))
	cm.add(field("grade", 4, kindSpec{t: tEnum, name: ".vf.xpub.a.Grade"}))
	cm.addMap("by_grade", 5, tString, kindSpec{t: tEnum, name: ".vf.xpub.a.Grade"})
	pk := repeated(field("explicit_packed", 6, kindSpec{t: tSint64}))
	pk.Options = &descriptorpb.FieldOptions{Packed: proto.Bool(true), Deprecated: proto.Bool(true), Jstype: descriptorpb.FieldOptions_JS_STRING.Enum()}
	cm.add(pk)
	lz := field("lazy_origin", 7, kindSpec{t: tMessage, name: ".vf.xpub.a.Origin"})
	lz.Options = &descriptorpb.FieldOptions{Lazy: proto.Bool(true)}
	cm.add(lz)
	cm.d.Options = &descriptorpb.MessageOptions{Deprecated: proto.Bool(true)}
	pc.msg(cm)
	pub := simpleSet("xpkg-import-public", pa, pb, pc)
	// two proto packages generated into ONE Go package: the holder's fields refer to types of the other file, which is
	// "local" to the Go package but foreign to the proto package (and may or may not be generated in the same run)
	ha := newFile("xonego", "a", "vf.xonego.a")
	ha.dep("zzgen/xonego/b.proto")
	hm := newMsg(".vf.xonego.a", "Holder")
	hm.add(repeated(field("items", 1, kindSpec{t: tMessage, name: ".vf.xonego.b.Item"})))
	hm.add(field("one", 2, kindSpec{t: tMessage, name: ".vf.xonego.b.Item"}))
	hm.add(repeated(field("kinds", 3, kindSpec{t: tEnum, name: ".vf.xonego.b.ItemKind"})))
	hm.add(field("note", 4, kindSpec{t: tString}))
	ha.msg(hm)
	hb := newFile("xonego", "b", "vf.xonego.b")
	im := newMsg(".vf.xonego.b", "Item")
	im.add(field("id", 1, kindSpec{t: tSint64}))
	im.add(field("name", 2, kindSpec{t: tString}))
	hb.msg(im)
	hb.enum(enum("ItemKind", "ITEM_KIND_ZERO", 0, "ITEM_KIND_ONE", 1))
	onego := simpleSet("xpkg-one-go-package", hb, ha)
	return []*Set{all, ms, ss, same, pub, onego}
}

// ---------------------------------------------------------------------------
// well-known types

func wktSets() []*Set {
	pkg := "vf.wkt"
	f := newFile("wkt", "wkt", pkg).dep("google/protobuf/any.proto", "google/protobuf/timestamp.proto", "google/protobuf/duration.proto",
		"google/protobuf/field_mask.proto", "google/protobuf/struct.proto", "google/protobuf/wrappers.proto", "google/protobuf/empty.proto")
	wk := []kindSpec{
		{t: tMessage, name: ".google.protobuf.Any", tag: "any"},
		{t: tMessage, name: ".google.protobuf.Timestamp", tag: "timestamp"},
		{t: tMessage, name: ".google.protobuf.Duration", tag: "duration"},
		{t: tMessage, name: ".google.protobuf.FieldMask", tag: "field_mask"},
		{t: tMessage, name: ".google.protobuf.Struct", tag: "struct"},
		{t: tMessage, name: ".google.protobuf.Value", tag: "value"},
		{t: tMessage, name: ".google.protobuf.ListValue", tag: "list_value"},
		{t: tMessage, name: ".google.protobuf.Int32Value", tag: "int32_value"},
		{t: tMessage, name: ".google.protobuf.UInt64Value", tag: "uint64_value"},
		{t: tMessage, name: ".google.protobuf.StringValue", tag: "string_value"},
		{t: tMessage, name: ".google.protobuf.BytesValue", tag: "bytes_value"},
		{t: tMessage, name: ".google.protobuf.BoolValue", tag: "bool_value"},
		{t: tMessage, name: ".google.protobuf.DoubleValue", tag: "double_value"},
		{t: tMessage, name: ".google.protobuf.FloatValue", tag: "float_value"},
		{t: tMessage, name: ".google.protobuf.Empty", tag: "empty"},
	}
	s := newMsg("."+pkg, "Singular")
	r := newMsg("."+pkg, "Repeated")
	m := newMsg("."+pkg, "Mapped")
	o := newMsg("."+pkg, "Choice")
	oi := o.oneof("kind")
	for i, k := range wk {
		s.add(field("s_"+k.tag, int32(i+1), k))
		r.add(repeated(field("r_"+k.tag, int32(i+1), k)))
		m.addMap("m_"+k.tag, int32(i+1), tString, k)
		o.add(inOneof(field("o_"+k.tag, int32(i+1), k), oi))
	}
	f.msg(s).msg(r).msg(m).msg(o)
	// a compact one for the concurrency engine: Any + Timestamp next to plain fields
	c := newMsg("."+pkg, "Event")
	c.add(field("at", 1, wk[1]))
	c.add(field("payload", 2, wk[0]))
	c.add(field("ttl", 3, wk[2]))
	c.add(field("name", 4, kindSpec{t: tString}))
	c.addMap("attrs", 5, tString, wk[5])
	c.add(repeated(field("history", 6, wk[1])))
	f.msg(c)
	// a type that recurses through an Any (its payload can be a Box again)
	bx := newMsg("."+pkg, "Box")
	bx.add(field("content", 1, wk[0]))
	bx.add(field("label", 2, kindSpec{t: tString}))
	f.msg(bx)
	// a proto3 message holding proto2 messages with required fields (CheckInitialized must look inside)
	f.dep("google/protobuf/descriptor.proto")
	p2 := newMsg("."+pkg, "HoldsProto2")
	p2.add(field("opt", 1, kindSpec{t: tMessage, name: ".google.protobuf.UninterpretedOption"}))
	p2.add(repeated(field("opts", 2, kindSpec{t: tMessage, name: ".google.protobuf.UninterpretedOption"})))
	p2.addMap("by_name", 3, tString, kindSpec{t: tMessage, name: ".google.protobuf.UninterpretedOption.NamePart"})
	p2.add(field("plain", 5, kindSpec{t: tString}))
	f.msg(p2)
	// extendable protobuf-go messages inside a generated message (extensions resolved through the caller's resolver)
	ho := newMsg("."+pkg, "HoldsOptions")
	ho.add(field("fo", 1, kindSpec{t: tMessage, name: ".google.protobuf.FieldOptions"}))
	ho.add(repeated(field("mos", 2, kindSpec{t: tMessage, name: ".google.protobuf.MessageOptions"})))
	ho.addMap("by", 3, tString, kindSpec{t: tMessage, name: ".google.protobuf.FieldOptions"})
	ho.add(field("inner", 4, kindSpec{t: tMessage, name: "." + pkg + ".HoldsOptions"}))
	f.msg(ho)
	return []*Set{simpleSet("wkt", f)}
}

// ---------------------------------------------------------------------------
// names

var protoreflectMethodNames = []string{"descriptor", "type", "new", "interface", "range", "has", "clear", "get", "set", "mutable", "new_field", "which_oneof", "get_unknown", "set_unknown", "is_valid", "proto_methods"}
var templateIdents = []string{"x", "n", "l", "i", "options", "size", "d_at_a", "input", "value", "fd", "unknown_fields", "state", "size_cache", "m", "v", "k", "err", "ok", "list", "b", "wire", "field_num", "wire_type", "i_nd_ex", "post_index", "msglen", "mapkey", "mapvalue", "skippy", "marshal", "unmarshal", "fmt", "math", "sort", "io", "runtime", "protoreflect", "protoiface", "protoimpl", "string", "reset", "proto_message", "slow_proto_reflect", "len", "cap", "append", "copy", "make", "nil", "true", "false", "bool", "int32", "uint64", "byte", "error", "float64", "panic"}
var goKeywords = []string{"break", "case", "chan", "const", "continue", "default", "defer", "else", "fallthrough", "for", "func", "go", "goto", "if", "import", "interface", "map", "package", "range", "return", "select", "struct", "switch", "type", "var"}

func nameFieldsMsg(pkg, name string, names []string, kinds []kindSpec) *msgB {
	m := newMsg("."+pkg, name)
	for i, n := range names {
		k := kinds[i%len(kinds)]
		f := field(n, int32(i+1), k)
		switch i % 4 {
		case 1:
			if k.t != tMessage {
				repeated(f)
			}
		}
		m.add(f)
	}
	return m
}

func nameSets() []*Set {
	var sets []*Set
	mk := func(setname, gopkg string, build func(f *fileB, pkg string)) {
		pkg := "vf.names." + gopkg
		f := newFile(gopkg, gopkg, pkg)
		build(f, pkg)
		sets = append(sets, simpleSet(setname, f))
	}
	mk("names-fields-methods", "nmeth", func(f *fileB, pkg string) {
		leaf, en := commonTypes(f, pkg)
		f.msg(nameFieldsMsg(pkg, "Methods", protoreflectMethodNames, []kindSpec{{t: tString}, {t: tInt64}, leaf, en, {t: tBytes}, {t: tBool}}))
		// the same names as members of a oneof and as map fields
		m := newMsg("."+pkg, "MethodMembers")
		oi := m.oneof("sum")
		for i, n := range protoreflectMethodNames {
			m.add(inOneof(field(n, int32(i+1), []kindSpec{{t: tString}, {t: tSint32}, leaf}[i%3]), oi))
		}
		f.msg(m)
		mm := newMsg("."+pkg, "MethodMaps")
		for i, n := range protoreflectMethodNames {
			mm.addMap(n, int32(i+1), tString, []kindSpec{{t: tString}, leaf}[i%2])
		}
		f.msg(mm)
	})
	mk("names-fields-idents", "nident", func(f *fileB, pkg string) {
		leaf, en := commonTypes(f, pkg)
		f.msg(nameFieldsMsg(pkg, "Idents", templateIdents, []kindSpec{{t: tString}, {t: tSint64}, leaf, en, {t: tBytes}, {t: tDouble}, {t: tFixed32}}))
		m := newMsg("."+pkg, "IdentMaps")
		for i, n := range templateIdents {
			m.addMap(n, int32(i+1), keyTypes[i%len(keyTypes)], []kindSpec{{t: tString}, leaf, {t: tSint32}, {t: tBytes}}[i%4])
		}
		f.msg(m)
	})
	mk("names-fields-keywords", "nkw", func(f *fileB, pkg string) {
		leaf, en := commonTypes(f, pkg)
		f.msg(nameFieldsMsg(pkg, "Keywords", goKeywords, []kindSpec{{t: tString}, {t: tUint32}, leaf, en}))
	})
	// oneofs named after template identifiers / keywords (one message, several oneofs)
	mk("names-oneofs-idents", "noid", func(f *fileB, pkg string) {
		m := newMsg("."+pkg, "OneofIdents")
		for i, n := range []string{"x", "n", "l", "i", "options", "size", "value", "input", "state", "unknown_fields", "size_cache", "m", "string", "reset", "func", "map", "struct"} {
			oi := m.oneof(n)
			m.add(inOneof(field(fmt.Sprintf("a%d", i), int32(2*i+1), kindSpec{t: tString}), oi))
			m.add(inOneof(field(fmt.Sprintf("b%d", i), int32(2*i+2), kindSpec{t: tSint32}), oi))
		}
		f.msg(m)
	})
	// one set per protoreflect.Message method name used as a oneof name
	for _, n := range protoreflectMethodNames {
		n := n
		mk("names-oneof-"+strings.ReplaceAll(n, "_", ""), "no"+strings.ReplaceAll(n, "_", ""), func(f *fileB, pkg string) {
			m := newMsg("."+pkg, "M")
			oi := m.oneof(n)
			m.add(inOneof(field("first", 1, kindSpec{t: tString}), oi))
			m.add(inOneof(field("second", 2, kindSpec{t: tInt32}), oi))
			m.add(field("plain", 3, kindSpec{t: tInt32}))
			f.msg(m)
		})
	}
	// a field-less "namespace" message whose nested messages use reserved names
	mk("names-nested-in-empty", "nnest", func(f *fileB, pkg string) {
		ns := newMsg("."+pkg, "Events")
		tr := newMsg(ns.full, "Transfer")
		tr.add(field("type", 1, kindSpec{t: tString}))
		tr.add(field("get", 2, kindSpec{t: tInt32}))
		oi := tr.oneof("range")
		tr.add(inOneof(field("has", 3, kindSpec{t: tString}), oi))
		tr.add(inOneof(field("clear", 4, kindSpec{t: tSint32}), oi))
		deep := newMsg(tr.full, "Inner")
		deep.add(field("descriptor", 1, kindSpec{t: tBytes}))
		deep.add(field("new", 2, kindSpec{t: tMessage, name: tr.full}))
		tr.nest(deep)
		ns.nest(tr)
		f.msg(ns)
		user := newMsg("."+pkg, "User")
		user.add(field("t", 1, kindSpec{t: tMessage, name: tr.full}))
		user.add(repeated(field("inners", 2, kindSpec{t: tMessage, name: deep.full})))
		f.msg(user)
	})
	// enum with allow_alias whose alias is not declared next to the aliased value
	mk("names-enum-alias", "nalias", func(f *fileB, pkg string) {
		e := enum("Phase", "PHASE_UNKNOWN", 0, "PHASE_STARTED", 1, "PHASE_DONE", 2, "PHASE_RUNNING", 1, "PHASE_FINISHED", 2, "PHASE_NEG", -3)
		e.Options = &descriptorpb.EnumOptions{AllowAlias: proto.Bool(true)}
		f.enum(e)
		m := newMsg("."+pkg, "Job")
		m.add(field("phase", 1, kindSpec{t: tEnum, name: "." + pkg + ".Phase"}))
		m.add(repeated(field("history", 2, kindSpec{t: tEnum, name: "." + pkg + ".Phase"})))
		m.addMap("by_name", 3, tString, kindSpec{t: tEnum, name: "." + pkg + ".Phase"})
		f.msg(m)
	})
	// a comment on the package statement whose text starts, directly after the slashes, like a Go build constraint
	mk("names-comment-directive", "ncdir", func(f *fileB, pkg string) {
		m := newMsg("."+pkg, "Plain")
		m.add(field("v", 1, kindSpec{t: tString}))
		f.msg(m)
		f.f.SourceCodeInfo = &descriptorpb.SourceCodeInfo{Location: []*descriptorpb.SourceCodeInfo_Location{
			{Path: []int32{2}, Span: []int32{2, 0, 2, 20}, LeadingComments: proto.String("go:build ignore\n")},
			{Path: []int32{4, 0}, Span: []int32{4, 0, 6, 1}, LeadingComments: proto.String("go:generate echo hello\n")},
		}}
	})
	// a oneof wrapper type whose natural Go name is taken by a nested message (protoc-gen-go appends "_")
	mk("names-wrapper-vs-nested", "nwrap", func(f *fileB, pkg string) {
		m := newMsg("."+pkg, "M")
		a := newMsg(m.full, "A")
		a.add(field("v", 1, kindSpec{t: tInt32}))
		m.nest(a)
		oi := m.oneof("x")
		m.add(inOneof(field("a", 1, kindSpec{t: tSint32}), oi))
		m.add(inOneof(field("b", 2, kindSpec{t: tMessage, name: a.full}), oi))
		m.add(field("plain", 3, kindSpec{t: tMessage, name: a.full}))
		f.msg(m)
	})
	// generated package-level variables are named after message and field: A{B_c} and A.B{c} must not collide
	mk("names-var-collide", "nvar", func(f *fileB, pkg string) {
		a := newMsg("."+pkg, "A")
		b := newMsg(a.full, "B")
		b.add(field("c", 1, kindSpec{t: tString}))
		b.add(repeated(field("d", 2, kindSpec{t: tInt32})))
		a.nest(b)
		a.add(field("B_c", 1, kindSpec{t: tString}))
		a.add(field("B_d", 2, kindSpec{t: tMessage, name: b.full}))
		a.add(field("b", 3, kindSpec{t: tMessage, name: b.full}))
		f.msg(a)
	})
	// message / enum names that need Go-name mangling
	mk("names-mangle", "nmangle", func(f *fileB, pkg string) {
		f.enum(enum("lower_enum", "lower_zero", 0, "lower_one", 1))
		f.enum(enum("Other", "OTHER_ZERO", 0, "zero_too", 2))
		a := newMsg("."+pkg, "lower_case_msg")
		a.add(field("CamelField", 1, kindSpec{t: tString}))
		a.add(field("field_9x", 2, kindSpec{t: tInt32}))
		a.add(field("_leading", 3, kindSpec{t: tEnum, name: "." + pkg + ".lower_enum"}))
		a.add(field("trailing_", 4, kindSpec{t: tEnum, name: "." + pkg + ".Other"}))
		a.add(field("double__under", 5, kindSpec{t: tBytes}))
		n := newMsg(a.full, "nested_lower")
		n.add(field("v", 1, kindSpec{t: tMessage, name: a.full}))
		n.nestEnum(enum("inner_enum", "inner_zero", 0))
		a.nest(n)
		a.add(field("nl", 6, kindSpec{t: tMessage, name: n.full}))
		a.add(repeated(field("ie", 7, kindSpec{t: tEnum, name: n.full + ".inner_enum"})))
		f.msg(a)
		b := newMsg("."+pkg, "Msg_With_Underscores")
		b.add(field("a", 1, kindSpec{t: tMessage, name: a.full}))
		b.addMap("snake_case_map", 2, tString, kindSpec{t: tMessage, name: n.full})
		f.msg(b)
	})
	// Go packages named like the packages the generated code imports itself (fmt, io, runtime, math, sort, binary,
	// protoreflect, proto, sync, reflect, protoiface, protoimpl), used from one file in every field shape
	{
		std := []string{"fmt", "io", "runtime", "math", "sort", "binary", "protoreflect", "proto", "sync", "reflect", "protoiface", "protoimpl"}
		var files []*fileB
		user := newFile("npuser", "user", "vf.names.pkgs.user")
		um := newMsg(".vf.names.pkgs.user", "User")
		oi := um.oneof("pick")
		var members []*descriptorpb.FieldDescriptorProto
		for i, n := range std {
			pf := &fileB{f: &descriptorpb.FileDescriptorProto{
				Name: proto.String("zzgen/np" + n + "/" + n + ".proto"), Package: proto.String("vf.names.pkgs." + n), Syntax: proto.String("proto3"),
				Options: &descriptorpb.FileOptions{GoPackage: proto.String(goPkgPath("np"+n) + ";" + n)},
			}}
			pm := newMsg(".vf.names.pkgs."+n, "T")
			pm.add(field("v", 1, kindSpec{t: tString}))
			pm.add(repeated(field("nums", 2, kindSpec{t: tSfixed64})))
			pm.addMap("m", 3, tInt32, kindSpec{t: tDouble})
			pf.msg(pm)
			pf.enum(enum("Kind", "KIND_ZERO", 0, "KIND_ONE", 1))
			files = append(files, pf)
			user.dep(pf.f.GetName())
			tk := kindSpec{t: tMessage, name: ".vf.names.pkgs." + n + ".T"}
			ek := kindSpec{t: tEnum, name: ".vf.names.pkgs." + n + ".Kind"}
			switch i % 4 {
			case 0:
				um.add(field("s_"+n, int32(10*i+1), tk))
			case 1:
				um.add(repeated(field("r_"+n, int32(10*i+1), tk)))
			case 2:
				um.addMap("m_"+n, int32(10*i+1), tString, tk)
			case 3:
				members = append(members, inOneof(field("o_"+n, int32(10*i+1), tk), oi))
			}
			um.add(repeated(field("e_"+n, int32(10*i+2), ek)))
		}
		for _, mf := range members { // oneof members must be declared consecutively
			um.add(mf)
		}
		user.msg(um)
		files = append(files, user)
		sets = append(sets, simpleSet("names-std-package-names", files...))
	}
	// an unusual file name and an empty proto package
	{
		wf := &fileB{f: &descriptorpb.FileDescriptorProto{
			Name: proto.String("zzgen/nfile/My-File.v1.2.proto"), Syntax: proto.String("proto3"),
			Options: &descriptorpb.FileOptions{GoPackage: proto.String(goPkgPath("nfile") + ";nfile")},
		}}
		wm := newMsg("", "NoPackageMsg")
		wm.add(field("v", 1, kindSpec{t: tString}))
		wm.add(field("again", 2, kindSpec{t: tMessage, name: ".NoPackageMsg"}))
		wm.add(repeated(field("kinds", 3, kindSpec{t: tEnum, name: ".NoPackageEnum"})))
		wf.msg(wm)
		wf.enum(enum("NoPackageEnum", "NP_ZERO", 0, "NP_ONE", 1))
		sets = append(sets, simpleSet("names-odd-file-name", wf))
	}
	// two files of one request whose paths differ only in '/' versus '_' (ab_c.proto and ab/c.proto): the Go
	// identifiers derived from the paths (File_..._ab_c_proto) coincide, the files and their Go packages do not
	{
		mk := func(name, gopkg, goname, pkg string) *fileB {
			return &fileB{f: &descriptorpb.FileDescriptorProto{
				Name: proto.String(name), Package: proto.String(pkg), Syntax: proto.String("proto3"),
				Options: &descriptorpb.FileOptions{GoPackage: proto.String(goPkgPath(gopkg) + ";" + goname)},
			}}
		}
		f1 := mk("zzgen/npath/ab_c.proto", "npath", "npath", "vf.names.pathu")
		m1 := newMsg(".vf.names.pathu", "Under")
		m1.add(field("v", 1, kindSpec{t: tString}))
		m1.add(repeated(field("n", 2, kindSpec{t: tSint32})))
		f1.msg(m1)
		f1.enum(enum("UnderKind", "UNDER_ZERO", 0, "UNDER_ONE", 1))
		f2 := mk("zzgen/npath/ab/c.proto", "npath/ab", "ab", "vf.names.paths")
		f2.dep(f1.f.GetName())
		m2 := newMsg(".vf.names.paths", "Slash")
		m2.add(field("w", 1, kindSpec{t: tBytes}))
		m2.add(field("under", 2, kindSpec{t: tMessage, name: ".vf.names.pathu.Under"}))
		m2.addMap("by", 3, tString, kindSpec{t: tEnum, name: ".vf.names.pathu.UnderKind"})
		f2.msg(m2)
		f2.enum(enum("SlashKind", "SLASH_ZERO", 0, "SLASH_ONE", 1))
		sets = append(sets, simpleSet("names-path-ident-collide", f1, f2))
	}
	return sets
}

// ---------------------------------------------------------------------------
// options / services

// optsDeclareSet: a file that declares custom options (extensions of several descriptor option messages, declared
// interleaved) and uses them.
func optsDeclareSet() *Set {
	pkg := "vf.optd"
	f := newFile("optd", "optd", pkg).dep("google/protobuf/descriptor.proto")
	ext := func(name string, num int32, extendee string, k kindSpec, rep bool) *descriptorpb.FieldDescriptorProto {
		e := field(name, num, k)
		if rep {
			e = repeated(e)
		}
		e.Extendee = proto.String(extendee)
		return e
	}
	meta := newMsg("."+pkg, "Meta")
	meta.add(field("k", 1, kindSpec{t: tString}))
	f.msg(meta)
	f.f.Extension = []*descriptorpb.FieldDescriptorProto{
		ext("note_a", 50001, ".google.protobuf.FieldOptions", kindSpec{t: tString}, false),
		ext("note_b", 50002, ".google.protobuf.MessageOptions", kindSpec{t: tInt32}, false),
		ext("note_c", 50003, ".google.protobuf.FieldOptions", kindSpec{t: tMessage, name: "." + pkg + ".Meta"}, false),
		ext("note_d", 50004, ".google.protobuf.EnumValueOptions", kindSpec{t: tBool}, false),
		ext("note_e", 50005, ".google.protobuf.MessageOptions", kindSpec{t: tString}, true),
		ext("note_f", 50006, ".google.protobuf.FileOptions", kindSpec{t: tSint64}, false),
		ext("snake_case_note", 50007, ".google.protobuf.FieldOptions", kindSpec{t: tBytes}, false),
	}
	u := newMsg("."+pkg, "Uses")
	fa := field("tagged", 1, kindSpec{t: tString})
	fa.Options = &descriptorpb.FieldOptions{}
	raw := protowire.AppendString(protowire.AppendTag(nil, 50001, protowire.BytesType), "hello")
	raw = protowire.AppendBytes(protowire.AppendTag(raw, 50003, protowire.BytesType), protowire.AppendString(protowire.AppendTag(nil, 1, protowire.BytesType), "v"))
	raw = protowire.AppendBytes(protowire.AppendTag(raw, 50007, protowire.BytesType), []byte{1, 2})
	fa.Options.ProtoReflect().SetUnknown(raw)
	u.add(fa)
	u.add(field("plain", 2, kindSpec{t: tMessage, name: "." + pkg + ".Meta"}))
	u.d.Options = &descriptorpb.MessageOptions{}
	mraw := protowire.AppendVarint(protowire.AppendTag(nil, 50002, protowire.VarintType), 7)
	mraw = protowire.AppendString(protowire.AppendTag(mraw, 50005, protowire.BytesType), "x")
	mraw = protowire.AppendString(protowire.AppendTag(mraw, 50005, protowire.BytesType), "y")
	u.d.Options.ProtoReflect().SetUnknown(mraw)
	f.msg(u)
	e := enum("Level", "LEVEL_ZERO", 0, "LEVEL_ONE", 1)
	e.Value[1].Options = &descriptorpb.EnumValueOptions{}
	e.Value[1].Options.ProtoReflect().SetUnknown(protowire.AppendVarint(protowire.AppendTag(nil, 50004, protowire.VarintType), 1))
	f.enum(e)
	f.f.Options.ProtoReflect().SetUnknown(protowire.AppendVarint(protowire.AppendTag(nil, 50006, protowire.VarintType), protowire.EncodeZigZag(-3)))
	return simpleSet("opts-declare", f)
}

func optsSets() []*Set {
	pkg := "vf.opts"
	f := newFile("opts", "opts", pkg).dep("cosmos_proto/cosmos.proto", "google/protobuf/any.proto")
	fo := f.f.Options
	proto.SetExtension(fo, cosmos_proto.E_DeclareInterface, []*cosmos_proto.InterfaceDescriptor{{Name: "vf.opts.Animal", Description: "an animal"}})
	proto.SetExtension(fo, cosmos_proto.E_DeclareScalar, []*cosmos_proto.ScalarDescriptor{{Name: "vf.opts.Dec", Description: "decimal", FieldType: []cosmos_proto.ScalarType{cosmos_proto.ScalarType_SCALAR_TYPE_STRING}}})
	fo.Deprecated = proto.Bool(false)
	m := newMsg("."+pkg, "Dog")
	m.d.Options = &descriptorpb.MessageOptions{}
	proto.SetExtension(m.d.Options, cosmos_proto.E_ImplementsInterface, []string{"vf.opts.Animal"})
	proto.SetExtension(m.d.Options, cosmos_proto.E_MessageAddedIn, "vf 0.1")
	fa := field("amount", 1, kindSpec{t: tString})
	fa.Options = &descriptorpb.FieldOptions{}
	proto.SetExtension(fa.Options, cosmos_proto.E_Scalar, "vf.opts.Dec")
	proto.SetExtension(fa.Options, cosmos_proto.E_FieldAddedIn, "vf 0.2")
	m.add(fa)
	fb := field("friend", 2, kindSpec{t: tMessage, name: ".google.protobuf.Any"})
	fb.Options = &descriptorpb.FieldOptions{}
	proto.SetExtension(fb.Options, cosmos_proto.E_AcceptsInterface, "vf.opts.Animal")
	m.add(fb)
	fc := field("old", 3, kindSpec{t: tInt32})
	fc.Options = &descriptorpb.FieldOptions{Deprecated: proto.Bool(true)}
	m.add(fc)
	fd := field("renamed", 4, kindSpec{t: tString})
	fd.JsonName = proto.String("customJSON")
	m.add(fd)
	f.msg(m)
	req := newMsg("."+pkg, "Req")
	req.add(field("q", 1, kindSpec{t: tString}))
	res := newMsg("."+pkg, "Res")
	res.add(repeated(field("dogs", 1, kindSpec{t: tMessage, name: m.full})))
	f.msg(req).msg(res)
	mo := &descriptorpb.MethodOptions{}
	proto.SetExtension(mo, cosmos_proto.E_MethodAddedIn, "vf 0.3")
	f.f.Service = append(f.f.Service, &descriptorpb.ServiceDescriptorProto{
		Name: proto.String("Kennel"),
		Method: []*descriptorpb.MethodDescriptorProto{
			{Name: proto.String("Find"), InputType: proto.String(req.full), OutputType: proto.String(res.full), Options: mo},
			{Name: proto.String("Watch"), InputType: proto.String(req.full), OutputType: proto.String(res.full), ServerStreaming: proto.Bool(true)},
		},
	})
	return []*Set{simpleSet("opts", f), optsDeclareSet()}
}

// ---------------------------------------------------------------------------
// negative / boundary requests

func negSets() []*Set {
	var sets []*Set
	tiny := func(gopkg string) *fileB {
		f := newFile(gopkg, gopkg, "vf.neg."+gopkg)
		m := newMsg(".vf.neg."+gopkg, "T")
		m.add(field("v", 1, kindSpec{t: tInt32}))
		f.msg(m)
		return f
	}
	// unknown feature name must be answered with an error
	s := simpleSet("neg-unknown-feature", tiny("negfeat"))
	s.Expect, s.Parameter, s.GoPackages = "error", "features=bogus", nil
	sets = append(sets, s)
	s = simpleSet("neg-unknown-feature-mixed", tiny("negfeat2"))
	s.Expect, s.Parameter, s.GoPackages = "error", "features=fast+bogus", nil
	sets = append(sets, s)
	// single features: must not crash; not claimed to compile
	s = simpleSet("neg-only-fast", tiny("negfast"))
	s.Expect, s.Parameter, s.GoPackages = "any", "features=fast", nil
	sets = append(sets, s)
	s = simpleSet("neg-only-protoc", tiny("negprotoc"))
	s.Expect, s.Parameter, s.GoPackages = "any", "features=protoc", nil
	sets = append(sets, s)
	// proto2 file: no output for it
	p2 := newFile("negp2", "p2", "vf.neg.p2")
	p2.f.Syntax = proto.String("proto2")
	pm := newMsg(".vf.neg.p2", "Old")
	pf := field("v", 1, kindSpec{t: tInt32})
	pm.add(pf)
	p2.msg(pm)
	s = simpleSet("neg-proto2", p2)
	s.Expect, s.GoPackages, s.ExpectFiles = "nofile", nil, nil
	sets = append(sets, s)
	// proto2 + proto3 together: only the proto3 file is generated
	p2b := newFile("negmix2", "p2", "vf.neg.mix2")
	p2b.f.Syntax = proto.String("proto2")
	pmb := newMsg(".vf.neg.mix2", "Old")
	pmb.add(field("v", 1, kindSpec{t: tInt32}))
	p2b.msg(pmb)
	p3 := tiny("negmix3")
	s = simpleSet("neg-proto2-and-proto3", p2b, p3)
	s.GoPackages = []string{goPkgPath("negmix3")}
	s.ExpectFiles = []string{"zzgen/negmix3/negmix3.pulsar.go"}
	sets = append(sets, s)
	// a dependency that is present but not requested gets no output
	dep := tiny("negdep")
	user := newFile("neguser", "user", "vf.neg.user").dep(*dep.f.Name)
	um := newMsg(".vf.neg.user", "U")
	um.add(field("t", 1, kindSpec{t: tMessage, name: ".vf.neg.negdep.T"}))
	user.msg(um)
	s = simpleSet("neg-dep-not-requested", dep, user)
	s.Generate = []string{*user.f.Name}
	s.GoPackages = nil // needs negdep compiled too: generated by the next set
	s.ExpectFiles = []string{"zzgen/neguser/user.pulsar.go"}
	s.Note = "only user.proto requested"
	sets = append(sets, s)
	s = simpleSet("neg-dep-itself", tiny("negdep"))
	sets = append(sets, s)
	// empty file and enum-only file
	ef := newFile("negempty", "empty", "vf.neg.empty")
	s = simpleSet("neg-empty-file", ef)
	s.Expect = "any"
	s.GoPackages = nil
	sets = append(sets, s)
	eo := newFile("negenum", "enums", "vf.neg.enums")
	eo.enum(enum("Lonely", "LONELY_ZERO", 0, "LONELY_ONE", 1))
	s = simpleSet("neg-enum-only", eo)
	s.Expect = "any"
	sets = append(sets, s)
	return sets
}

// ---------------------------------------------------------------------------
// regen: the repository's own schemas moved to another package and regenerated
// with the working-tree generator.

func regenSets() []*Set {
	var sets []*Set
	type src struct {
		path, gopkg string
	}
	groups := map[string][]string{
		"regentestpb": {"1.proto", "2.proto", "3.proto"},
		"regentest3":  {"internal/testprotos/test3/test.proto", "internal/testprotos/test3/test_import.proto", "internal/testprotos/test3/test_nesting.proto"},
	}
	_ = src{}
	for gopkg, paths := range groups {
		var fbs []*fileB
		ok := true
		rename := map[string]string{}
		for _, p := range paths {
			rename[p] = "zzgen/" + gopkg + "/" + p[strings.LastIndex(p, "/")+1:]
		}
		for _, p := range paths {
			fd, err := protoregistry.GlobalFiles.FindFileByPath(p)
			if err != nil {
				ok = false
				break
			}
			fp := protodesc.ToFileDescriptorProto(fd)
			oldPkg := fp.GetPackage()
			newPkg := "vf.regen." + gopkg
			b, _ := proto.Marshal(fp)
			_ = b
			fp.Name = proto.String(rename[p])
			fp.Package = proto.String(newPkg)
			fp.Options = &descriptorpb.FileOptions{GoPackage: proto.String(goPkgPath(gopkg) + ";" + gopkg)}
			for i, d := range fp.Dependency {
				if r, ok := rename[d]; ok {
					fp.Dependency[i] = r
				}
			}
			if oldPkg == "" {
				// no proto package: rename references whose first component is declared locally
				localTop := map[string]bool{}
				for _, q := range paths {
					if qd, err := protoregistry.GlobalFiles.FindFileByPath(q); err == nil {
						for i := 0; i < qd.Messages().Len(); i++ {
							localTop[string(qd.Messages().Get(i).Name())] = true
						}
						for i := 0; i < qd.Enums().Len(); i++ {
							localTop[string(qd.Enums().Get(i).Name())] = true
						}
					}
				}
				for top := range localTop {
					renameTypes(fp, "."+top, "."+newPkg+"."+top)
				}
			} else {
				renameTypes(fp, "."+oldPkg+".", "."+newPkg+".")
			}
			fbs = append(fbs, &fileB{f: fp})
		}
		if !ok {
			continue
		}
		sets = append(sets, simpleSet("regen-"+gopkg, fbs...))
	}
	return sets
}

func renameTypes(fp *descriptorpb.FileDescriptorProto, from, to string) {
	var walk func(ms []*descriptorpb.DescriptorProto)
	hasPrefix := func(s, pre string) bool {
		if !strings.HasPrefix(s, pre) {
			return false
		}
		if strings.HasSuffix(pre, ".") || len(s) == len(pre) {
			return true
		}
		return s[len(pre)] == '.'
	}
	fix := func(f *descriptorpb.FieldDescriptorProto) {
		if f.TypeName != nil && hasPrefix(*f.TypeName, from) {
			f.TypeName = proto.String(to + strings.TrimPrefix(*f.TypeName, from))
		}
		if f.Extendee != nil && strings.HasPrefix(*f.Extendee, from) {
			f.Extendee = proto.String(to + strings.TrimPrefix(*f.Extendee, from))
		}
	}
	walk = func(ms []*descriptorpb.DescriptorProto) {
		for _, m := range ms {
			for _, f := range m.Field {
				fix(f)
			}
			walk(m.NestedType)
		}
	}
	walk(fp.MessageType)
	for _, s := range fp.Service {
		for _, m := range s.Method {
			if hasPrefix(m.GetInputType(), from) {
				m.InputType = proto.String(to + strings.TrimPrefix(m.GetInputType(), from))
			}
			if hasPrefix(m.GetOutputType(), from) {
				m.OutputType = proto.String(to + strings.TrimPrefix(m.GetOutputType(), from))
			}
		}
	}
}
