// Package glue is the leaf registry through which subject packages (checked-in
// and freshly generated) expose protobuf-go's own table-driven reflection
// ("slow" reference) over their generated structs to the verification harness.
// It is only ever present in the private work copy of the repository.
package glue

import (
	"sort"

	"google.golang.org/protobuf/proto"
	"google.golang.org/protobuf/reflect/protoreflect"
)

// SlowFunc returns x.slowProtoReflect() for the concrete generated type.
type SlowFunc func(proto.Message) protoreflect.Message

type Subject struct {
	FullName protoreflect.FullName
	Zero     proto.Message // typed nil pointer (*T)(nil)
	Slow     SlowFunc
	Origin   string // "checked-in" or "fresh"
}

var subjects = map[protoreflect.FullName]*Subject{}

func Register(origin string, zero proto.Message, slow SlowFunc) {
	name := zero.ProtoReflect().Descriptor().FullName()
	subjects[name] = &Subject{FullName: name, Zero: zero, Slow: slow, Origin: origin}
}

func Lookup(name protoreflect.FullName) *Subject { return subjects[name] }

// ExtVar is a generated package-level extension variable (E_Name) together with its Go identifier.
type ExtVar struct {
	Package string // Go package name
	GoName  string
	Type    protoreflect.ExtensionType
}

var extVars []ExtVar

func RegisterExt(pkg, goName string, xt protoreflect.ExtensionType) {
	extVars = append(extVars, ExtVar{Package: pkg, GoName: goName, Type: xt})
}

func ExtVars() []ExtVar { return extVars }

func All() []*Subject {
	out := make([]*Subject, 0, len(subjects))
	for _, s := range subjects {
		out = append(out, s)
	}
	sort.Slice(out, func(i, j int) bool { return out[i].FullName < out[j].FullName })
	return out
}

// SlowMsg wraps a slow reflection view as a proto.Message so that the generic
// protobuf-go entry points (proto.Marshal, proto.Equal, ...) can be driven over it.
type SlowMsg struct{ M protoreflect.Message }

func (w SlowMsg) ProtoReflect() protoreflect.Message { return w.M }
