import sys, os, json, subprocess, shutil, time, re, hashlib, glob, concurrent.futures as cf

VERIF = os.path.dirname(os.path.dirname(os.path.abspath(__file__)))
MODULE = 'github.com/cosmos/cosmos-proto'
NCPU = os.cpu_count() or 4

GOENV = dict(os.environ)
GOENV.update({
    'GOFLAGS': '-mod=mod', 'GOPROXY': 'off', 'GOSUMDB': 'off', 'GOTOOLCHAIN': 'local',
    'CGO_ENABLED': GOENV.get('CGO_ENABLED', '1'),
})


def log(*a):
    print('[vcheck]', *a, file=sys.stderr, flush=True)


def run(cmd, cwd=None, env=None, timeout=None, check=True, capture=True, stdin=None):
    p = subprocess.run(cmd, cwd=cwd, env=env or GOENV, timeout=timeout, input=stdin,
                       stdout=subprocess.PIPE if capture else None,
                       stderr=subprocess.STDOUT if capture else None)
    if check and p.returncode != 0:
        out = p.stdout.decode('utf-8', 'replace') if p.stdout else ''
        raise Broken('command failed (%d): %s\n%s' % (p.returncode, ' '.join(map(str, cmd)), out[-6000:]))
    return p


class Broken(Exception):
    """The check itself could not do its job (not a property violation)."""


# ---------------------------------------------------------------------------
# per-property configuration

# engine -> properties it reports on
ENGINE_PROPS = {
    'codec': ['C01', 'C02', 'C04', 'C05'],
    'wire': ['C03', 'C14'],
    'total': ['C06'],
    'alias': ['C07'],
    'reflectdiff': ['C08'],
    'nilread': ['C09'],
    'libdiff': ['C10'],
    'conc': ['C11'],
    'rt': ['C15'],
    'anyu': ['C16'],
    'timep': ['C17'],
    'rapidp': ['C18'],
    'api': ['C19'],
}

PROP = {
    # id: engines, needs fresh packages, build variants
    'C01': dict(engines=['codec'], fresh=True),
    'C02': dict(engines=['codec'], fresh=True),
    'C03': dict(engines=['wire'], fresh=True),
    'C04': dict(engines=['codec'], fresh=True),
    'C05': dict(engines=['codec'], fresh=True),
    'C06': dict(engines=['total'], fresh=True),
    'C07': dict(engines=['alias'], fresh=True),
    'C08': dict(engines=['reflectdiff', 'reflectexh'], fresh=True),
    'C09': dict(engines=['nilread'], fresh=True),
    'C10': dict(engines=['libdiff'], fresh=True),
    'C11': dict(engines=['conc'], fresh=True, race=True),
    'C12': dict(engines=[], fresh=True, gen=True),
    'C13': dict(engines=[], fresh=False, gen=True),
    'C14': dict(engines=['wire'], fresh=True),
    'C15': dict(engines=['rt'], fresh=False, stall=90, solo_stall=30),
    'C16': dict(engines=['anyu'], fresh=True),
    'C17': dict(engines=['timep'], fresh=False),
    'C18': dict(engines=['rapidp'], fresh=True),
    'C19': dict(engines=['api'], fresh=True),
}


# ---------------------------------------------------------------------------
# work copy

class Work:
    def __init__(self, pid, repo, tier, seed, keep=False):
        base = os.environ.get('VERIF_WORK', '/var/tmp')
        self.dir = os.path.join(base, 'vp-%s-%d' % (pid, os.getpid()))
        self.repo = repo
        self.tier = tier
        self.seed = seed
        self.keep = keep
        self.events = []      # C12-style generation events
        self.fresh_pkgs = []  # go import paths of usable fresh packages
        self.init_failures = {}  # fresh packages whose init() panics
        self.engine_crashes = []  # process-fatal crashes of engine shards, confirmed by a second run (run_engine)
        self.sets = []

    def __enter__(self):
        if os.path.exists(self.dir):
            shutil.rmtree(self.dir)
        os.makedirs(self.dir)
        run(['rsync', '-a', '--exclude', '.git', '--exclude', 'zzverif', '--exclude', 'zzgen', self.repo.rstrip('/') + '/', self.dir + '/'])
        hz = os.path.join(self.dir, 'zzverif')
        shutil.copytree(os.path.join(VERIF, 'harness'), hz)
        os.makedirs(os.path.join(self.dir, 'zzbin'), exist_ok=True)
        os.makedirs(os.path.join(self.dir, 'zzout'), exist_ok=True)
        return self

    def __exit__(self, *a):
        if not self.keep:
            shutil.rmtree(self.dir, ignore_errors=True)
        else:
            log('kept work copy', self.dir)

    def p(self, *parts):
        return os.path.join(self.dir, *parts)

    # -- builds ------------------------------------------------------------
    def gobuild(self, out, pkg, extra=(), timeout=1800):
        t0 = time.time()
        cmd = ['go', 'build', '-trimpath', '-tags', 'verif', *extra, '-o', out, pkg]
        run(cmd, cwd=self.dir, timeout=timeout)
        log('built %s %s in %.1fs' % (pkg, ' '.join(extra), time.time() - t0))

    def build_plugin(self, cover=False):
        out = self.p('zzbin', 'plugin-cover' if cover else 'plugin')
        extra = []
        if cover:
            extra = ['-cover', '-coverpkg=%s/features/...,%s/generator/...,%s/cmd/...' % (MODULE, MODULE, MODULE)]
        self.gobuild(out, './cmd/protoc-gen-go-pulsar', extra)
        return out

    def build_schemagen(self):
        out = self.p('zzbin', 'schemagen')
        self.gobuild(out, './zzverif/schemagen')
        return out

    # -- glue ----------------------------------------------------------------
    def write_glue(self, pkgdir, origin):
        """Emit zz_verif_glue.go into a package of generated code."""
        recv = set()
        exts = set()
        pkgname = None
        for fn in sorted(glob.glob(os.path.join(pkgdir, '*.go'))):
            if fn.endswith('_test.go') or os.path.basename(fn).startswith('zz_verif'):
                continue
            src = open(fn, encoding='utf-8', errors='replace').read()
            m = re.search(r'^package\s+(\w+)', src, re.M)
            if m and pkgname is None:
                pkgname = m.group(1)
            for m in re.finditer(r'^func \(x \*(\w+)\) slowProtoReflect\(\)', src, re.M):
                recv.add(m.group(1))
            for m in re.finditer(r'^\t(E_\w+) = &file_\w+_extTypes\[\d+\]', src, re.M):
                exts.add(m.group(1))
        if not recv:
            return 0
        lines = ['// Code generated by vcheck (verification glue). DO NOT EDIT.', '',
                 'package %s' % pkgname, '',
                 'import (', '\t"%s/zzverif/glue"' % MODULE,
                 '\t"google.golang.org/protobuf/proto"',
                 '\t"google.golang.org/protobuf/reflect/protoreflect"', ')', '', 'func init() {']
        for r in sorted(recv):
            lines.append('\tglue.Register(%r, (*%s)(nil), func(m proto.Message) protoreflect.Message { return m.(*%s).slowProtoReflect() })'
                         % (origin, r, r))
        for e in sorted(exts):
            lines.append('\tglue.RegisterExt(%r, %r, %s)' % (pkgname, e, e))
        lines.append('}')
        src = '\n'.join(lines).replace("'", '"') + '\n'
        open(os.path.join(pkgdir, 'zz_verif_glue.go'), 'w').write(src)
        return len(recv)

    def write_imports(self, pkgs):
        lines = ['// Code generated by vcheck. DO NOT EDIT.', '', 'package main', '', 'import (']
        for p in sorted(pkgs):
            lines.append('\t_ "%s"' % p)
        lines += [')', '']
        open(self.p('zzverif', 'vh', 'zz_imports_gen.go'), 'w').write('\n'.join(lines))

    # -- generation ------------------------------------------------------------
    def generate(self, families=None, nrandom=None):
        """schemagen -> plugin -> write -> compile each package; records events."""
        sg = self.build_schemagen()
        plugin = self.build_plugin()
        reqdir = self.p('zzreq')
        os.makedirs(reqdir, exist_ok=True)
        if nrandom is None:
            nrandom = 2 if self.tier == 'quick' else 12
        cmd = [sg, '-out', reqdir, '-seed', str(self.seed), '-random', str(nrandom)]
        if families:
            cmd += ['-families', ','.join(families)]
        run(cmd, cwd=self.dir, timeout=600)
        man = json.load(open(os.path.join(reqdir, 'manifest.json')))
        self.sets = man['sets']
        dec = self.p('zzbin', 'schemagen')

        def one(s):
            ev = dict(set=s['name'], family=s['family'], expect=s['expect'], parameter=s.get('parameter', ''))
            req = open(os.path.join(reqdir, s['name'] + '.req'), 'rb').read()
            try:
                p = subprocess.run([plugin], input=req, stdout=subprocess.PIPE, stderr=subprocess.PIPE, timeout=300, cwd=reqdir)
            except subprocess.TimeoutExpired:
                ev.update(status='timeout')
                return ev
            ev['exit'] = p.returncode
            ev['stderr'] = p.stderr.decode('utf-8', 'replace')[-1500:]
            if p.returncode != 0:
                ev.update(status='crash')
                return ev
            respf = os.path.join(reqdir, s['name'] + '.resp')
            open(respf, 'wb').write(p.stdout)
            q = subprocess.run([dec, '-decode', respf, '-root', self.dir, '-write=%s' % ('1' if s['expect'] == 'ok' else '0')],
                               stdout=subprocess.PIPE, stderr=subprocess.PIPE, timeout=120)
            if q.returncode != 0:
                ev.update(status='bad-response', detail=q.stderr.decode('utf-8', 'replace')[-1500:])
                return ev
            info = json.loads(q.stdout)
            ev['files'] = info['files']
            ev['error'] = info.get('error', '')
            ev['status'] = 'error' if info.get('error') else 'ok'
            return ev

        with cf.ThreadPoolExecutor(max_workers=NCPU) as ex:
            evs = list(ex.map(one, self.sets))
        self.events = evs
        return evs

    def compile_fresh(self):
        """go build every fresh package separately; returns usable import paths."""
        by_set = {s['name']: s for s in self.sets}
        pkgs = {}
        for ev in self.events:
            s = by_set[ev['set']]
            if s['expect'] != 'ok' or ev.get('status') != 'ok':
                continue
            for ip in (s.get('go_packages') or []):
                pkgs.setdefault(ip, []).append(ev)
        # glue first (so that the compile below also covers the glue file)
        for ip in pkgs:
            d = self.p(ip[len(MODULE) + 1:])
            if os.path.isdir(d):
                self.write_glue(d, 'fresh')

        def build(ip):
            p = subprocess.run(['go', 'build', '-trimpath', '-tags', 'verif', ip], cwd=self.dir, env=GOENV,
                               stdout=subprocess.PIPE, stderr=subprocess.STDOUT, timeout=1800)
            return ip, p.returncode, p.stdout.decode('utf-8', 'replace')[-3000:]

        ok = []
        t0 = time.time()
        # dependencies between fresh packages exist (xpkg); go build handles it.
        with cf.ThreadPoolExecutor(max_workers=max(2, NCPU // 2)) as ex:
            for ip, rc, out in ex.map(build, sorted(pkgs)):
                for ev in pkgs[ip]:
                    ev.setdefault('compile', {})[ip] = 'ok' if rc == 0 else out
                if rc == 0:
                    ok.append(ip)
        log('compiled %d/%d fresh packages in %.1fs' % (len(ok), len(pkgs), time.time() - t0))
        # a package importing a broken package is unusable too: go build already failed for it
        self.fresh_pkgs = ok
        return ok

    def prepare_harness(self, fresh=True, variants=('plain',), families=None, nrandom=None):
        pk = [MODULE + '/testpb', MODULE + '/internal/testprotos/test3']
        self.write_glue(self.p('testpb'), 'checked-in')
        self.write_glue(self.p('internal', 'testprotos', 'test3'), 'checked-in')
        if fresh:
            self.generate(families=families, nrandom=nrandom)
            pk += self.compile_fresh()
        self.write_imports(pk)
        bins = {}
        self.init_failures = {}
        for attempt in range(2):
            for v in variants:
                out = self.p('zzbin', 'vh-' + v)
                extra = []
                if v == 'race':
                    extra = ['-race']
                elif v == 'cover':
                    extra = ['-cover', '-coverpkg=' + ','.join(pk)]
                self.gobuild(out, './zzverif/vh', extra)
                bins[v] = out
            # every package must at least initialise (descriptor registration happens in init)
            b0 = bins[variants[0]]
            q = subprocess.run([b0, '-engine', 'listtypes'], cwd=self.dir, env=GOENV, stdout=subprocess.PIPE, stderr=subprocess.PIPE, timeout=300)
            if q.returncode == 0 or attempt == 1:
                if q.returncode != 0:
                    raise Broken('harness binary does not start even without the failing packages:\n' + q.stderr.decode('utf-8', 'replace')[-2000:])
                break
            log('harness binary panics at start-up; isolating the package whose init fails')
            fresh_pk = [x for x in pk if '/zzgen/' in x]

            def probe(ip):
                d = self.p('zzverif', 'initprobe_' + re.sub(r'\W', '_', ip))
                os.makedirs(d, exist_ok=True)
                open(os.path.join(d, 'main.go'), 'w').write('package main\n\nimport _ "%s"\n\nfunc main() {}\n' % ip)
                r = subprocess.run(['go', 'run', '-trimpath', '-tags', 'verif', './' + os.path.relpath(d, self.dir)], cwd=self.dir, env=GOENV, stdout=subprocess.PIPE, stderr=subprocess.STDOUT, timeout=600)
                shutil.rmtree(d, ignore_errors=True)
                return ip, r.returncode, r.stdout.decode('utf-8', 'replace')[-2500:]
            with cf.ThreadPoolExecutor(max_workers=NCPU) as ex:
                for ip, rc, out in ex.map(probe, fresh_pk):
                    if rc != 0:
                        self.init_failures[ip] = out
            if not self.init_failures:
                raise Broken('harness binary panics at start-up but every fresh package initialises alone:\n' + q.stderr.decode('utf-8', 'replace')[-2000:])
            # a package importing a failing one fails too; drop them all and rebuild
            pk = [x for x in pk if x not in self.init_failures]
            self.fresh_pkgs = [x for x in self.fresh_pkgs if x not in self.init_failures]
            self.write_imports(pk)
        return bins

    # -- engines ---------------------------------------------------------------
    def run_engine(self, binary, engine, shards=NCPU, args=(), timeout=3600, env=None):
        """Runs the engine in `shards` processes.  A process that dies of a Go fatal error (stack overflow,
        concurrent map access, ...: not recoverable in-process) while it was inside a case is run once more; if it
        dies again on the same case, that is recorded in self.engine_crashes (turned into a violation of the
        property the case was exercising by add_init_failures) and the other shards' reports are still used."""
        t0 = time.time()
        e = dict(GOENV)
        e['GOMAXPROCS'] = '2'
        e['GOTRACEBACK'] = 'single'
        if env:
            e.update(env)

        def start(i, tag=''):
            o = self.p('zzout', '%s-%d%s.json' % (engine, i, tag))
            lg = self.p('zzout', '%s-%d%s.log' % (engine, i, tag))
            cf_ = self.p('zzout', '%s-%d%s.case' % (engine, i, tag))
            for f in (o, cf_):
                if os.path.exists(f):
                    os.remove(f)
            lf = open(lg, 'wb')
            cmd = ['timeout', '-s', 'QUIT', str(timeout), binary, '-engine', engine, '-seed', str(self.seed), '-tier', self.tier,
                   '-shard', '%d/%d' % (i, shards), '-out', o, '-casefile', cf_, *merge_args(self, args)]
            return subprocess.Popen(cmd, cwd=self.dir, env=e, stdout=lf, stderr=subprocess.STDOUT), o, lf, lg, cf_

        def crashinfo(lg, cf_):
            txt = open(lg, 'rb').read().decode('utf-8', 'replace')
            m = re.search(r'^(fatal error: .*|runtime: goroutine stack exceeds .*)$', txt, re.M)
            case = None
            try:
                b = open(cf_, 'rb').read(512)
                parts = b[8:].split(b'\0')
                if len(parts) >= 3 and parts[0]:
                    case = dict(prop=b[:8].rstrip(b'\0').decode(), engine=parts[0].decode(), type=parts[1].decode('utf-8', 'replace'), index=int(parts[2] or b'0'))
            except Exception:
                pass
            return (m.group(1) if m else None), case, txt

        rss_limit = int(float(os.environ.get('VERIF_RSS_LIMIT_GB', '10')) * (1 << 30))

        def wait_all(ps):
            """Waits for the processes; one whose resident set grows beyond the limit is killed (a runaway would take
            the machine down) and reported as too big. Returns {index: (rc, too_big)}."""
            out, live = {}, dict(ps)
            while live:
                for k, p in list(live.items()):
                    rc = p.poll()
                    if rc is not None:
                        out[k] = (rc, out.get(k, (None, False))[1])
                        del live[k]
                        continue
                    try:
                        rss = int(open('/proc/%d/statm' % p.pid).read().split()[1]) * os.sysconf('SC_PAGE_SIZE')
                    except Exception:
                        rss = 0
                    if rss > rss_limit:
                        out[k] = (None, True)
                        p.kill()
                if live:
                    time.sleep(0.5)
            return out

        procs = [start(i) + (i,) for i in range(shards)]
        waited = wait_all({i: p for p, o, lf, lg, cf_, i in procs})
        reports = []
        for p, o, lf, lg, cf_, i in procs:
            rc, too_big = waited[i]
            lf.close()
            if rc == 0 and os.path.exists(o) and not too_big:
                reports.append(json.load(open(o)))
                continue
            fatal, case, txt = crashinfo(lg, cf_)
            if too_big:
                fatal = 'resident memory of the process grew beyond %d GiB' % (rss_limit >> 30)
            if fatal and case and too_big:
                p2, o2, lf2, lg2, cf2 = start(i, '-again')
                w2 = wait_all({0: p2})[0]
                lf2.close()
                _, case2, _ = crashinfo(lg2, cf2)
                if w2[1] and case2 == case:
                    log('engine %s shard %d: %s on %s (twice)' % (engine, i, fatal, case))
                    self.engine_crashes.append(dict(case=case, fatal=fatal, log='', seed=self.seed))
                    continue
                raise Broken('engine %s shard %d: %s (case %s), not reproduced on the same case' % (engine, i, fatal, case))
            if fatal and case and 'concurrent map' in fatal:
                # the runtime's own detector of unsynchronised map access: schedule dependent, needs no second run
                log('engine %s shard %d: %s (case %s)' % (engine, i, fatal, case))
                self.engine_crashes.append(dict(case=case, fatal=fatal, log=txt[:3000], seed=self.seed))
                continue
            if fatal and case:
                p2, o2, lf2, lg2, cf2 = start(i, '-again')
                rc2 = p2.wait()
                lf2.close()
                fatal2, case2, txt2 = crashinfo(lg2, cf2)
                if rc2 != 0 and fatal2 and (case2 == case or ('resident memory' in fatal and 'resident memory' in fatal2)):
                    log('engine %s shard %d dies on %s (twice): %s' % (engine, i, case, fatal))
                    self.engine_crashes.append(dict(case=case, fatal=fatal, log=txt[:3000], seed=self.seed))
                    continue
            raise Broken('engine %s shard %d exited %d\n%s' % (engine, i, rc, txt[-4000:]))
        log('engine %s: %d shards in %.1fs' % (engine, shards, time.time() - t0))
        return reports


def merge_reports(reports, prop):
    m = dict(evals=0, distinct=0, violations=[], n_violations=0, inconclusive={}, counters={}, samples=[], types=[], notes=[])
    for r in reports:
        m['types'] += r.get('types') or []
        m['notes'] += r.get('notes') or []
        p = (r.get('props') or {}).get(prop)
        if not p:
            continue
        m['evals'] += p['evals']
        m['distinct'] += p['distinct']
        m['violations'] += p.get('violations') or []
        m['n_violations'] += p.get('n_violations', 0)
        for k, v in (p.get('inconclusive') or {}).items():
            m['inconclusive'][k] = m['inconclusive'].get(k, 0) + v
        for k, v in (p.get('counters') or {}).items():
            m['counters'][k] = m['counters'].get(k, 0) + v
        if len(m['samples']) < 6:
            m['samples'] += (p.get('samples') or [])[:2]
    return m


# ---------------------------------------------------------------------------
# known findings

def load_known():
    fn = os.path.join(VERIF, 'known_findings.json')
    if not os.path.exists(fn):
        return []
    return json.load(open(fn)).get('findings', [])


def classify(prop, violations):
    """Split violations into (new, known) using the narrow keys of known_findings.json."""
    known = [k for k in load_known() if k.get('property') == prop and k.get('status') == 'known']
    new, hit = [], {}
    for v in violations:
        matched = None
        for k in known:
            if k['key'] == v['key'] and re.search(k.get('type_regex', '.*'), v.get('type', '')) \
                    and re.search(k.get('detail_regex', '.*'), v.get('detail', ''), re.S):
                matched = k
                break
        if matched is not None:
            hit.setdefault(matched['id'], []).append(v)
        else:
            new.append(v)
    return new, hit, known


# ---------------------------------------------------------------------------
# evidence

EVDIR = os.environ.get('VERIF_EVIDENCE_DIR') or os.path.join(VERIF, 'evidence')
RPDIR = os.path.join(os.environ['VERIF_EVIDENCE_DIR'], 'replay') if os.environ.get('VERIF_EVIDENCE_DIR') else os.path.join(VERIF, 'replay')


def write_evidence(prop, tier, seed, t0, cov, violations, assumptions, level='exploration'):
    os.makedirs(EVDIR, exist_ok=True)
    ev = dict(property_id=prop, tier=tier, seed=seed, level=level, coverage=cov,
              assumptions=assumptions, wall_s=round(time.time() - t0, 1), violations=violations)
    fn = os.path.join(EVDIR, prop + '.json')
    tmp = fn + '.tmp'
    json.dump(ev, open(tmp, 'w'), indent=1, sort_keys=False, default=str)
    os.replace(tmp, fn)
    return fn


def save_replays(prop, violations):
    d = os.path.join(RPDIR, prop)
    os.makedirs(d, exist_ok=True)
    for f in glob.glob(os.path.join(d, '*.json')):
        os.remove(f)
    paths = []
    for i, v in enumerate(violations[:50]):
        key = re.sub(r'[^A-Za-z0-9_.-]+', '_', v['key'])[:80]
        fn = os.path.join(d, '%s-%d.json' % (key, i))
        json.dump(v, open(fn, 'w'), indent=1, default=str)
        paths.append(fn)
    return paths


CO_PROPS = {'wire': ('C03', 'C14')}  # one call decides both: a process-fatal crash inside it counts for either


def add_engine_crashes(prop, w, merged):
    """Process-fatal crashes confirmed by run_engine: a violation when the case was exercising this property's
    clause; otherwise the check could not run (the crash belongs to another property's check)."""
    for c in w.engine_crashes:
        case = c['case']
        if case['prop'] == prop or prop in CO_PROPS.get(case['engine'], ()) or prop == 'C12':
            merged['violations'].append(dict(prop=prop, key='%s/fatal-crash' % case['engine'], type=case['type'],
                                             detail='the process died (not recoverable by the caller) while working on case %d of %s, twice: %s\n%s' % (case['index'], case['type'], c['fatal'], c['log'][:1800]),
                                             replay=dict(engine=case['engine'], type=case['type'], seed=c['seed'], index=case['index'])))
            merged['n_violations'] += 1
        else:
            raise Broken('engine %s died of %s in a clause of %s (case %d of %s): check %s cannot complete' % (case['engine'], c['fatal'], case['prop'], case['index'], case['type'], prop))


def add_init_failures(prop, w, merged):
    add_engine_crashes(prop, w, merged)
    """A freshly generated package whose init() panics is a violation of C12 (output does not work)
    and C19 (descriptor/type registration is incoherent); other properties carry on without it."""
    for ip, out in (getattr(w, 'init_failures', None) or {}).items():
        if True:
            # (every property quantifies over the freshly generated types: a package that cannot even be imported
            # fails all of them for its types)
            merged['violations'].append(dict(prop=prop, key=('gen' if prop == 'C12' else 'api' if prop == 'C19' else 'subject') + '/package-init-panics', type=ip,
                                             detail='the generated package %s panics while initialising (registering its descriptors and Go types):\n%s' % (ip, out), replay=dict(engine='init', package=ip)))
            merged['n_violations'] += 1
        else:
            merged['notes'].append('package %s excluded: init() panics' % ip)


def finish(prop, tier, seed, t0, merged, rule, assumptions, floor_evals, floor_distinct, extra=None, exhaustive=None):
    """Common epilogue: classify, print lines, evidence, exit status."""
    new, hit, known = classify(prop, merged['violations'])
    cov = dict(evaluations=merged['evals'], distinct_nontrivial=merged['distinct'], rule=rule,
               samples=merged['samples'][:6] or [], inconclusive=merged['inconclusive'],
               counters=dict(sorted(merged['counters'].items())),
               subject_types=len(set(merged['types'])), notes=merged['notes'][:10],
               known_findings_hit={k: len(v) for k, v in hit.items()},
               violation_reports=merged['n_violations'])
    if exhaustive is not None:
        cov['exhaustive'] = exhaustive
    if extra:
        cov.update(extra)
    paths = save_replays(prop, new)
    write_evidence(prop, tier, seed, t0, cov, len(new), assumptions)
    for k in known:
        if k['id'] in hit:
            print('KNOWN-FINDING: property=%s %s' % (prop, k['what']))
    status = 0
    for v, pth in zip(new, paths):
        print('VIOLATION property=%s replay=%s' % (prop, pth))
        print('  key=%s type=%s' % (v['key'], v.get('type', '')))
        print('  ' + v.get('detail', '').replace('\n', '\n  ')[:1500])
        status = 1
    if len(new) > len(paths):
        print('(%d further violations not written out)' % (len(new) - len(paths)))
    if status == 0:
        if merged['evals'] < floor_evals or merged['distinct'] < floor_distinct:
            print('BROKEN: check %s observed too little: evals=%d (floor %d) distinct=%d (floor %d)'
                  % (prop, merged['evals'], floor_evals, merged['distinct'], floor_distinct))
            return 2
        inc = sum(merged['inconclusive'].values())
        if inc > max(20, merged['evals'] // 20):
            print('BROKEN: check %s: %d inconclusive cases of %d: %s' % (prop, inc, merged['evals'], merged['inconclusive']))
            return 2
        print('OK property=%s tier=%s seed=%d evaluations=%d distinct_nontrivial=%d known=%d wall=%.0fs'
              % (prop, tier, seed, merged['evals'], merged['distinct'], len(hit), time.time() - t0))
    return status


# ---------------------------------------------------------------------------

RULES = {
    'C01': 'seeded random message values (pools of boundary values per kind; every shape) for every subject type (checked-in and freshly generated); a case is non-trivial when the message has >=1 populated field; distinct by reference encoding of the value + type',
    'C02': 'same value list as C01; deterministic Marshal bytes of the generated message compared with dynamicpb deterministic bytes and an independent spec encoder (which must agree with each other first)',
    'C04': 'same value list as C01; proto.Size / ProtoMethods().Size vs encoded length and reference size, MarshalAppend over 6 prefix shapes x 2 modes',
    'C05': 'values containing maps (any depth); each built through several histories (shuffled insertion, grow-then-shrink, decode of a randomly ordered encoding, clone) and marshalled deterministically several times; non-trivial when some map has >=2 entries',
}

RULES.update({
    'C03': 'well-typed record streams rendered from seeded random values with mutations (reorder, duplicate scalars/messages, split singular messages, oneof member sequences, packed/unpacked alternative, split and empty packed runs, non-minimal varints, partial/duplicated/reordered map entries, foreign records in map entries, duplicate map keys, concatenation, Merge into a non-empty message); expected result decided by spec decoder and dynamicpb (must agree); non-trivial = at least one mutation applied; distinct by stream bytes',
    'C14': 'same streams with unknown records of all wire types (incl. nested groups) injected at every nesting level; unknown set per level from the spec decoder (ground truth of what was injected where) vs struct unknownFields vs GetUnknown; re-encoding; DiscardUnknown on and off; SetUnknown/GetUnknown round trip; non-trivial = stream leaves unknown bytes at >=1 level (or, with DiscardUnknown, is non-empty)',
})

RULES['C06'] = 'hostile inputs per type in 8 classes (random bytes, byte-mutated valid encodings, truncations, adversarial length varints incl. wrap-around values, partial map entries / nested cuts, random records with arbitrary wire types, over-long varints, group tags) x 4 entry points (Unmarshal, Merge+DiscardUnknown, AllowPartial, direct ProtoMethods().Unmarshal with zero Depth), plus nesting chains of depth 100..1000000 along every recursive field cycle; non-trivial = non-empty input; distinct by type+input bytes'

RULES['C07'] = 'encodings (with unknown records, bytes/string in every position) placed in mmap pages flush against a PROT_NONE guard page; pages are read-only during Unmarshal, overwritten and unmapped afterwards while the message is fingerprinted and re-marshalled; struct fingerprints (incl. nil-vs-empty, sizeCache, oneof wrapper) around 17 read-only operations, also on structs with empty-but-allocated containers; Marshal outputs of 6 entry points scribbled / message byte slices flipped (also for messages holding only unknown fields); appending Marshal with caller-owned bytes already in the buffer (with/without spare capacity) leaves them intact; non-trivial = non-empty input; distinct by type+input'

RULES['C15'] = 'Sov/Soz: EXHAUSTIVE over every x in [0,2^32) as low word, as x<<32 and x<<32|0xffffffff, plus all 64 bit-length boundaries +-2, against protowire; EncodeVarint: boundaries at offsets 10..20 and a stride sample (quick) / full 32-bit range (thorough) with canary bytes on both sides; Skip: seeded well-formed records (all wire types, groups nested to depth 64; groups nested 9998..10003 and 20000 deep around the protowire limit; 10001..12000 sibling groups) with and without tails, mutated records, random bytes and adversarial lengths, against protowire.ConsumeField; distinct by value / input'
RULES['C16'] = 'seeded values of every subject type packed with New / MarshalFrom(Deterministic) / the deprecated any alias, unpacked through the default registry, through an empty type registry (file-registry + dynamicpb path) and through a custom file registry; hostile Any values (URLs naming enums, enum values, services, methods, fields, oneofs, extensions, nothing, garbage, host-prefixed - the whole list once per type in every tier; corrupt values) under 4 resolver configurations; failed packs with sentinel destinations; distinct by type+value / url+resolver'
RULES['C17'] = 'Add/AddStd/Compare vs math/big nanosecond arithmetic: exhaustive grid over carry/borrow boundary values of nanos x sign combinations x range extremes, seeded random valid (t,d) pairs, an overflow class with arbitrary int64 seconds; Compare on all pairs of a pool incl. equal and adjacent instants + transitivity triples; non-trivial = non-zero duration / distinct pool elements'
RULES['C18'] = 'rapidproto.MessageGenerator draws (rapid Example with seeded seeds) for every subject type and a dynamicpb twin under the 16 combinations of NoEmptyLists / DisallowNilMessages / a string field mapper / Any type URLs; every drawn message is walked by reflection (UTF-8, Timestamp/Duration validity, Any resolvable+decodable, FieldMask paths, declared enum numbers, option obligations) and round-tripped through the reference codec; distinct by type+options+seed'

RULES['C08'] = 'operation histories (30-60 steps, seeded; plus EXHAUSTIVELY every sequence of up to 3 (quick) / 4 (thorough) letters of a 73-letter alphabet of short reflection operations on the compact all-shapes message vf.small.Small) over Has/Get/Set/Set-of-own-value/Clear/Mutable/NewField/WhichOneof/Range/GetUnknown/SetUnknown/IsValid and every List and Map method, with retained view handles (lists, maps, nested messages, detached NewField values, read-only empty views) driven in lock-step on fast reflection, protobuf-go table-driven reflection over a second struct of the same type, and dynamicpb; after every step return values, validity flags, panics and the full message state (Go struct read with package reflect vs dynamicpb state, and the generated Range view vs its own struct) are compared; a third of the histories start from a populated message; non-trivial = history has >=1 step; distinct by type + operation sequence'

RULES['C09'] = 'EXHAUSTIVE over subject types x fields x listed reads: for (*T)(nil), Type().Zero(), new(T) and the read-only values returned by Get for every unpopulated message/list/map field (chains to depth 3): Has, Get (vs dynamicpb defaults), Range, WhichOneof, GetUnknown, IsValid, Size, Marshal, MarshalAppend, Equal (both orders), Clone, Merge-from, protojson/prototext (vs reference output), CheckInitialized; writes (Set, Mutable, SetUnknown, List.Append, Map.Set) must panic; structs holding nil list elements, nil map values and oneof wrappers holding nil are compared with protobuf-go reflection over an identical struct on 9 read-only entry points; distinct by type + subject kind'

RULES['C12'] = 'plugin built from the working tree run on the schema corpus (kind x shape x tag-width matrix, all map key/value pairs, interleaved oneofs, maps at depth, nesting/recursion, cross-package graphs with M mappings and source_relative paths, well-known types, name-collision cases for fields and oneofs, custom options/services, the repository\'s own schemas regenerated, negative requests) plus seeded random schema sets; each emitted package compiled separately; every emitted type driven by the codec/wire/total/alias/reflectdiff/nilread engines at smoke size; non-trivial = every plugin invocation and every behavioural case; distinct by schema set / case'
RULES['C13'] = 'same request repeated in fresh processes (new map-iteration seeds) and compared byte-for-byte; file_to_generate permuted, reversed, reduced to subsets and to single files (per-file content must not change; incl. two proto packages sharing one Go package); 4 environment perturbations incl. a renamed binary run from another directory and an empty environment; regex scan of outputs for dates, times, absolute paths, toolchain versions; one run under strace with an allow-list of opened paths and no network/exec/write; distinct by (kind, request, variant)'

RULES['C10'] = 'seeded values of every subject type (valid UTF-8, quiet NaNs) materialised as generated struct and as dynamicpb (for fresh types built on the schema as given to the generator): Equal (self, same value, single-field-perturbed variants in both argument orders), Clone (equal, same Go type, independent after mutating the clone), Merge (vs reference, no aliasing of src), CheckInitialized incl. variants with an unset required field inside embedded proto2 messages, protojson (3 option sets) and prototext marshal output byte-compared with the reference and parsed back into both, Reset; non-trivial = message with >=1 populated field; distinct by type+value'

RULES['C11'] = 'per subject type several shared messages (built by struct construction, decoder, fast reflection Set, Clone; mostly-unset variants included); 16 goroutines released by a barrier each run 16 read-only operations (Size, Marshal both modes, Has/Get of every field incl. unset ones, Range, WhichOneof, Equal, Clone-from, Merge-from, protojson with and without EmitUnpopulated, prototext, getters, first use of the table-driven reflection, CheckInitialized, plain struct reads) in a seeded permutation under the Go race detector; the first use of every type is concurrent; readers overwrite and append to the bytes Marshal gave them; every sixth round shares a message holding only unknown fields; results compared with a sequential reader afterwards; distinct by type+round+message'

RULES['C19'] = 'structural part exhaustive per package: registered file descriptors of freshly generated packages compared with the FileDescriptorProto given to the generator (options included); the checked-in packages and cosmos.pb.go compared with the repository .proto files read by a small proto3 reader (package, imports, messages, fields, numbers, kinds, oneofs, maps, nested types, enums, services, custom options, extensions); registry lookups, descriptor identity, Type/New/Zero Go types, struct tags and Go field types vs descriptors, enum String/Number/Descriptor for every declared value; value part: seeded values per type, every getter (also on the nil receiver) vs Get, String() parsed back, Reset(); distinct by file / type / value'

ASSUME = [
    'google.golang.org/protobuf v1.34.0 dynamicpb + proto (reflection codec) is the reference; it and the harness spec codec must agree before a case is decided',
    'the plain-Go-reflection struct reader (struct tags -> field numbers) reads generated structs correctly',
    'sampling: held on the executions observed only',
]


FLOORS = {'C19': (500, 300), 'C10': (500, 200), 'C09': (300, 300), 'C08': (500, 300), 'C15': (1000000, 100000), 'C16': (500, 200), 'C17': (10000, 5000), 'C18': (300, 200), 'C07': (500, 200), 'C01': (500, 200), 'C02': (500, 200), 'C04': (500, 200), 'C05': (100, 30), 'C03': (500, 200), 'C14': (500, 100)}


def check_engine(prop, tier, seed, repo, keep):
    t0 = time.time()
    cfg = PROP[prop]
    with Work(prop, repo, tier, seed, keep) as w:
        thorough = tier == 'thorough'
        bins = w.prepare_harness(fresh=cfg.get('fresh', True), variants=('plain', 'race') if thorough else ('plain',))
        reps = []
        for eng in cfg['engines']:
            reps += w.run_engine(bins['plain'], eng)
        san = {}
        san_viol = []
        if thorough:
            # sanitizer slice: the same engines at quick size in a -race build (race detector + checkptr instrumentation)
            logbase = w.p('zzout', 'san-race')
            for eng in cfg['engines']:
                try:
                    sreps = w.run_engine(bins['race'], eng, shards=8, timeout=3000, args=['-tier', 'quick'],
                                         env={'GORACE': 'halt_on_error=0 exitcode=0 log_path=%s' % logbase})
                    reps += sreps
                except Broken as e:
                    if 'checkptr' in str(e) or 'fatal error' in str(e):
                        san_viol.append(dict(prop=prop, key='sanitizer/fatal', type=eng, detail='the -race/checkptr build of engine %s died:\n%s' % (eng, str(e)[-2500:]), replay=dict(engine=eng, build='race')))
                    else:
                        raise
            blocks = parse_race_logs(logbase + '.*')
            san = dict(sanitizer='Go race detector + checkptr (-race build), quick-size slice of the workload', race_reports=len(blocks))
            for sig, txt, subj in blocks[:10]:
                if subj:
                    san_viol.append(dict(prop=prop, key='sanitizer/data-race', type=sig, detail=txt, replay=dict(engine=cfg['engines'][0], build='race')))
        merged = merge_reports(reps, prop)
        merged['violations'] += san_viol
        merged['n_violations'] += len(san_viol)
        add_init_failures(prop, w, merged)
        gen_extra = gen_summary(w)
        gen_extra.update(san)
        if prop == 'C05':
            c = merged['counters']
            if c.get('values-with-map>=2', 0) > 50 and c.get('values-where-go-map-iteration-varied', 0) == 0:
                print('BROKEN: check C05: Go map iteration order never varied on %d values with maps of >=2 entries: map iteration randomness was not exercised' % c.get('values-with-map>=2', 0))
                return 2
        floors = FLOORS[prop]
        return finish(prop, tier, seed, t0, merged, RULES[prop], ASSUME, floors[0], floors[1], extra=gen_extra)


def merge_args(w, args):
    """All '-arg X' pairs are merged into one comma separated -arg (plus fds=<request dir>)."""
    out, kv = [], ['fds=' + w.p('zzreq')]
    it = iter(args)
    for a in it:
        if a == '-arg':
            kv.append(next(it))
        else:
            out.append(a)
    return out + ['-arg', ','.join(kv)]


def read_progress(fn):
    import struct
    try:
        b = open(fn, 'rb').read(24)
        return struct.unpack('<qqq', b)
    except Exception:
        return None


def run_isolated(w, binary, engine, shard, shards, args, timeout, tag, stall=25):
    """One child under a watchdog with a progress file. The watchdog is on progress:
    a child whose progress record does not change for `stall` seconds is taken to
    be stuck on that case (plus an overall deadline). Returns (report|None, crashinfo|None)."""
    o = w.p('zzout', '%s-%s-%d.json' % (engine, tag, shard))
    lg = w.p('zzout', '%s-%s-%d.log' % (engine, tag, shard))
    pg = w.p('zzout', '%s-%s-%d.progress' % (engine, tag, shard))
    for f in (o, pg):
        if os.path.exists(f):
            os.remove(f)
    e = dict(GOENV)
    e['GOMAXPROCS'] = '2'
    e['GOTRACEBACK'] = 'single'
    cmd = [binary, '-engine', engine, '-seed', str(w.seed), '-tier', w.tier,
           '-shard', '%d/%d' % (shard, shards), '-out', o, '-progress', pg, *merge_args(w, args)]
    timed_out = False
    with open(lg, 'wb') as lf:
        p = subprocess.Popen(cmd, cwd=w.dir, env=e, stdout=lf, stderr=subprocess.STDOUT)
        t0 = time.time()
        last, last_t = None, time.time()
        while True:
            try:
                rc = p.wait(timeout=1.0)
                break
            except subprocess.TimeoutExpired:
                pass
            cur = read_progress(pg)
            now = time.time()
            if cur != last:
                last, last_t = cur, now
            if now - last_t > stall or now - t0 > timeout:
                timed_out = True
                p.send_signal(3)  # SIGQUIT: goroutine dump into the log
                try:
                    rc = p.wait(timeout=15)
                except subprocess.TimeoutExpired:
                    p.kill()
                    rc = p.wait()
                break
    if rc == 0 and os.path.exists(o) and not timed_out:
        return json.load(open(o)), None
    head = open(lg, 'rb').read()[:3000].decode('utf-8', 'replace')
    return None, dict(rc=rc, progress=read_progress(pg), log=head, timed_out=timed_out)


def run_shards_isolated(w, binary, engine, prop, shards=NCPU, timeout=3600, stall=25, solo_stall=60, extra_args=()):
    """Crash-isolated children; a child that dies or stalls is attributed to the case it
    was working on (progress file), that case is re-run alone, and the shard
    continues without it. Returns (reports, violations, inconclusive)."""
    inconclusive = {}

    sweep_fail_seen = {}

    def shard_job(i):
        skip = []
        viol = []
        for attempt in range(6):
            args = list(extra_args) + (['-arg', 'skip=' + ';'.join(skip)] if skip else [])
            rep, crash = run_isolated(w, binary, engine, i, shards, args, timeout, 'a%d' % attempt, stall=stall)
            if rep is not None:
                return rep, viol
            pr = crash['progress']
            if engine == 'rt' and pr and pr[0] in (-3, -4):
                # died / stalled inside the exhaustive Sov/Soz (-3) or EncodeVarint (-4) sweep: the sweeps are
                # deterministic, a second failure at the same stage decides
                sweep_fail = sweep_fail_seen.get(i, 0) + 1
                sweep_fail_seen[i] = sweep_fail
                if sweep_fail >= 2:
                    viol.append(dict(prop=prop, key='rt/%s-in-sweep' % ('hang' if crash['timed_out'] else 'fatal'), type='runtime',
                                     detail='the %s sweep %s twice at block %d (exit %s):\n%s' % ('Sov/Soz' if pr[0] == -3 else 'EncodeVarint', 'made no progress for %d s' % stall if crash['timed_out'] else 'died', pr[1], crash['rc'], crash['log'][:1500]),
                                     replay=dict(engine=engine, type='runtime', seed=w.seed, index=-1)))
                    return None, viol
                continue
            if not pr or pr[0] == -1:
                raise Broken('%s shard %d died without progress info (rc=%s)\n%s' % (engine, i, crash['rc'], crash['log']))
            # engines that shard by case see every type; rapidp shards by type
            q = subprocess.run([binary, '-engine', 'listtypes', '-shard', ('%d/%d' % (i, shards)) if engine == 'rapidp' else '0/1'], cwd=w.dir, env=GOENV, stdout=subprocess.PIPE)
            types = json.loads(q.stdout)['types']
            tname = types[pr[0]] if 0 <= pr[0] < len(types) else '?'
            case = pr[1]
            if engine == 'rt':
                # the input stream of the runtime engine is per shard: regenerate it in the same shard
                rep1, crash1 = run_isolated(w, binary, engine, i, shards, ['-arg', 'only=%d' % case], 900, 'solo%d' % i, stall=solo_stall)
            else:
                rep1, crash1 = run_isolated(w, binary, engine, 0, 1, ['-types', '^' + re.escape(tname) + '$', '-arg', 'only=%d' % case], 900, 'solo%d' % i, stall=solo_stall)
            if rep1 is None:
                kind = 'hang' if crash1['timed_out'] else 'fatal'
                viol.append(dict(prop=prop, key='%s/%s' % (engine, kind), type=tname,
                                 detail='isolated child %s on case %d of type %s (exit %s):\n%s' % ('made no progress for %d s on a single case' % solo_stall if kind == 'hang' else 'died', case, tname, crash1['rc'], crash1['log'][:1500]),
                                 replay=dict(engine=engine, type=tname, seed=w.seed, index=case)))
                return None, viol  # one confirmed fatal/hang decides the run; do not spend the budget on more
            else:
                inconclusive['child-died-but-case-passes-alone'] = inconclusive.get('child-died-but-case-passes-alone', 0) + 1
            skip.append('%s:%d' % (tname, case))
        raise Broken('%s shard %d: more than 6 crashing cases' % (engine, i))

    with cf.ThreadPoolExecutor(max_workers=shards) as ex:
        res = list(ex.map(shard_job, range(shards)))
    reps = [r for r, _ in res if r is not None]
    viol = []
    for _, v in res:
        viol += v
    return reps, viol, inconclusive


def check_total(prop, tier, seed, repo, keep):
    """C06: hostile inputs in crash-isolated children + depth probes."""
    t0 = time.time()
    with Work(prop, repo, tier, seed, keep) as w:
        bins = w.prepare_harness(fresh=True)
        reps, extra_viol, inconclusive = run_shards_isolated(w, bins['plain'], 'total', 'C06', timeout=900 if tier == 'quick' else 7200)
        # depth probes (shared children; the deepest probe alone in its own children)
        dreps = []
        for depths, tag in (('100;5000;11000;20000;100000', 'd1'), ('1000000', 'd2')):
            def djob(i, depths=depths, tag=tag):
                rep, crash = run_isolated(w, bins['plain'], 'depth', i, 4, ['-arg', 'depths=' + depths], 1200, tag, stall=150)
                if rep is not None:
                    return rep, []
                return None, [dict(prop='C06', key='total/depth/fatal', type='(shard %d)' % i,
                                   detail='depth/overrun probe child (depths %s) %s (exit %s): a fatal error such as stack overflow cannot be recovered, a probe that makes no progress for 150 s is a hang; last progress record %s\n%s' % (depths, 'made no progress' if crash['timed_out'] else 'died', crash['rc'], crash['progress'], crash['log'][:1200]),
                                   replay=dict(engine='depth', depths=depths, shard='%d/4' % i, seed=seed))]
            with cf.ThreadPoolExecutor(max_workers=4) as ex:
                for rep, v in ex.map(djob, range(4)):
                    if rep is not None:
                        dreps.append(rep)
                    extra_viol += v
        merged = merge_reports(reps + dreps, prop)
        merged['violations'] += extra_viol
        merged['n_violations'] += len(extra_viol)
        add_init_failures(prop, w, merged)
        for k, v in inconclusive.items():
            merged['inconclusive'][k] = merged['inconclusive'].get(k, 0) + v
        return finish(prop, tier, seed, t0, merged, RULES[prop], ASSUME_C06, 2000, 1000, extra=gen_summary(w))


def check_isolated_engine(prop, tier, seed, repo, keep):
    """Engines whose subject may not terminate (C18): isolated children with a progress watchdog."""
    t0 = time.time()
    cfg = PROP[prop]
    with Work(prop, repo, tier, seed, keep) as w:
        bins = w.prepare_harness(fresh=cfg.get('fresh', True))
        reps, viol, inc = run_shards_isolated(w, bins['plain'], cfg['engines'][0], prop, stall=cfg.get('stall', 150), solo_stall=cfg.get('solo_stall', 300))
        merged = merge_reports(reps, prop)
        merged['violations'] += viol
        merged['n_violations'] += len(viol)
        if cfg.get('fresh', True):
            add_init_failures(prop, w, merged)
        for k, v in inc.items():
            merged['inconclusive'][k] = merged['inconclusive'].get(k, 0) + v
        fl = FLOORS[prop]
        return finish(prop, tier, seed, t0, merged, RULES[prop], ASSUME, fl[0], fl[1], extra=gen_summary(w))


ASSUME_C06 = [
    'termination is a watchdog judgement: a child that exceeds its generous deadline is re-run alone on the single input before a hang is reported',
    'allocation bound: len(input)*(largest reachable struct size+512)+1MiB per call, measured with runtime/metrics /gc/heap/allocs:bytes',
    'depth clause compares with dynamicpb (protobuf-go reference) at depths well away from the 10000 boundary',
    'sampling: held on the executions observed only',
]


SMOKE = [  # engine, props whose violations count, -n
    ('codec', ['C01', 'C02', 'C04', 'C05', 'C07', 'C08'], 25),
    ('wire', ['C03', 'C14'], 40),
    ('total', ['C06'], 400),
    ('alias', ['C07'], 20),
    ('reflectdiff', ['C08'], 12),
    ('nilread', ['C09'], 0),
    ('libdiff', ['C10'], 6),
    ('api', ['C19'], 4),
]


def plugin_coverage(w, reqdir):
    """Run the -cover plugin over all requests; return (percent summary, uncovered template lines)."""
    try:
        pc = w.build_plugin(cover=True)
        cd = w.p('zzcov')
        os.makedirs(cd, exist_ok=True)
        env = dict(GOENV, GOCOVERDIR=cd)
        for s in w.sets:
            req = open(os.path.join(reqdir, s['name'] + '.req'), 'rb').read()
            subprocess.run([pc], input=req, stdout=subprocess.DEVNULL, stderr=subprocess.DEVNULL, env=env, timeout=300, cwd=reqdir)
        pr = subprocess.run(['go', 'tool', 'covdata', 'percent', '-i=' + cd], cwd=w.dir, env=GOENV, stdout=subprocess.PIPE, stderr=subprocess.STDOUT)
        pct = {}
        for line in pr.stdout.decode().splitlines():
            m = re.match(r'\s*(\S+)\s+coverage:\s+([0-9.]+)%', line)
            if m:
                pct[m.group(1).replace(MODULE + '/', '')] = float(m.group(2))
        tf = w.p('zzcov.txt')
        subprocess.run(['go', 'tool', 'covdata', 'textfmt', '-i=' + cd, '-o=' + tf], cwd=w.dir, env=GOENV, stdout=subprocess.PIPE, stderr=subprocess.STDOUT)
        unc = []
        if os.path.exists(tf):
            for line in open(tf):
                m = re.match(r'(\S+):(\d+)\.\d+,(\d+)\.\d+ (\d+) (\d+)', line)
                if m and m.group(5) == '0' and '/features/fastreflection/' in m.group(1) and '/copied/' not in m.group(1):
                    unc.append('%s:%s-%s' % (m.group(1).replace(MODULE + '/', ''), m.group(2), m.group(3)))
        return pct, sorted(set(unc))
    except Exception as e:  # coverage is evidence only
        return {'error': str(e)}, []


def parse_race_logs(pattern):
    """Returns list of (signature, text, touches_subject) for each DATA RACE block."""
    blocks = []
    for fn in glob.glob(pattern):
        txt = open(fn, errors='replace').read()
        for b in txt.split('=================='):
            if 'WARNING: DATA RACE' not in b:
                continue
            frames = re.findall(r'^  (\S+)\(.*\)\s*\n\s+(\S+):(\d+)', b, re.M)
            subject = [f for f in frames if re.search(r'cosmos-proto/(testpb|internal/testprotos|zzgen|runtime|anyutil|support)\b', f[0]) or re.search(r'/(testpb|test3|zzgen/\w+|runtime)/[^/]+\.go$', f[1])]
            # signature: the two access stacks' top subject (or top) frames, line numbers stripped
            tops = []
            for part in re.split(r'\n(?=Previous |Goroutine )', b):
                fr = re.findall(r'^  (\S+)\(', part, re.M)
                if fr and ('by goroutine' in part.split('\n')[0] or 'by main goroutine' in part.split('\n')[0] or part.lstrip().startswith('WARNING')):
                    sub = [x for x in fr if re.search(r'cosmos-proto/(testpb|internal/testprotos|zzgen|runtime)', x)]
                    tops.append((sub or fr)[0])
            sig = ' <-> '.join(sorted(set(tops[:2]))) or 'unknown'
            blocks.append((sig, b.strip()[:3000], bool(subject)))
    return blocks


def check_conc(prop, tier, seed, repo, keep):
    """C11: -race build, readers released by a barrier; race reports + result comparison."""
    t0 = time.time()
    with Work(prop, repo, tier, seed, keep) as w:
        bins = w.prepare_harness(fresh=True, variants=('race',))
        logbase = w.p('zzout', 'race')
        reps = []
        repeats = 1 if tier == 'quick' else 3
        for k in range(repeats):
            reps += w.run_engine(bins['race'], 'conc', shards=4, timeout=3000,
                                 env={'GOMAXPROCS': '8', 'GORACE': 'halt_on_error=0 exitcode=0 log_path=%s history_size=2' % logbase})
        merged = merge_reports(reps, prop)
        add_init_failures(prop, w, merged)
        blocks = parse_race_logs(logbase + '.*')
        sigs = {}
        harness_only = 0
        for sig, txt, subj in blocks:
            if not subj:
                harness_only += 1
                continue
            if sig not in sigs:
                sigs[sig] = txt
        for sig, txt in list(sigs.items())[:20]:
            merged['violations'].append(dict(prop='C11', key='conc/data-race', type=sig, detail='the race detector reports a data race between concurrent readers of one shared message:\n' + txt, replay=dict(engine='conc', signature=sig, seed=seed)))
            merged['n_violations'] += 1
        extra = gen_summary(w)
        extra.update(race_reports=len(blocks), race_report_signatures=sorted(sigs), race_reports_without_subject_frames=harness_only, repeats=repeats,
                     sanitizer='Go race detector (-race, implies checkptr), GORACE halt_on_error=0')
        if harness_only and not sigs:
            print('BROKEN: %d race reports without any frame of the code under test (harness race?)' % harness_only)
            for sig, txt, subj in blocks[:2]:
                print(txt[:1500])
            return 2
        return finish(prop, tier, seed, t0, merged, RULES[prop], ASSUME + ['the race detector only sees the interleavings and code paths the workload drives; 16 goroutines per shared message, every op in a per-goroutine seeded permutation'], 200, 100, extra=extra)


def check_gen_total(prop, tier, seed, repo, keep):
    """C12: the plugin is total on the schema corpus, its output compiles, and the emitted types behave."""
    t0 = time.time()
    with Work(prop, repo, tier, seed, keep) as w:
        bins = w.prepare_harness(fresh=True, nrandom=4 if tier == 'quick' else 24)
        viol = []
        samples = []
        by_set = {s['name']: s for s in w.sets}
        nev = 0
        for ev in w.events:
            s = by_set[ev['set']]
            nev += 1
            st = ev.get('status')
            rep = dict(engine='gen', set=ev['set'], parameter=s.get('parameter', ''), seed=seed)
            tag = '%s (family %s, parameter %r)' % (ev['set'], ev['family'], s.get('parameter', ''))
            if st in ('crash', 'timeout', 'bad-response'):
                viol.append(dict(prop='C12', key='gen/plugin-' + st, type=ev['set'], detail='%s: plugin %s (exit %s)\n%s%s' % (tag, st, ev.get('exit'), ev.get('stderr', ''), ev.get('detail', '')), replay=rep))
                continue
            files = [f['path'] for f in (ev.get('files') or [])]
            if s['expect'] == 'error':
                if st != 'error':
                    viol.append(dict(prop='C12', key='gen/unservable-request-not-refused', type=ev['set'], detail='%s: expected an error response, got files %s' % (tag, files), replay=rep))
                continue
            if s['expect'] == 'any':
                continue
            if st == 'error':
                viol.append(dict(prop='C12', key='gen/error-on-valid-schema', type=ev['set'], detail='%s: plugin answered with error: %s' % (tag, ev.get('error', '')[:1500]), replay=rep))
                continue
            exp = sorted(s.get('expect_files') or [])
            if s['expect'] == 'nofile':
                exp = []
            if sorted(files) != exp:
                viol.append(dict(prop='C12', key='gen/unexpected-output-files', type=ev['set'], detail='%s: generated files %s, expected %s' % (tag, sorted(files), exp), replay=rep))
            for ip, res in (ev.get('compile') or {}).items():
                if res != 'ok':
                    viol.append(dict(prop='C12', key='gen/output-does-not-compile', type=ev['set'], detail='%s: package %s does not compile:\n%s' % (tag, ip, res[:1500]), replay=rep))
            if len(samples) < 4:
                samples.append(dict(set=ev['set'], family=ev['family'], parameter=s.get('parameter', ''), messages=s.get('messages'), files=files))
        # behavioural smoke on every freshly generated type
        merged_all = dict(evals=nev, distinct=len({e['set'] for e in w.events}), violations=viol, n_violations=len(viol), inconclusive={}, counters={}, samples=samples, types=[], notes=[])
        for eng, props, n in SMOKE:
            args = ['-types', '^vf\\.']
            if n:
                args += ['-n', str(n if tier == 'quick' else n * 8)]
            if eng == 'total':
                reps, v, inc = run_shards_isolated(w, bins['plain'], eng, 'C06', extra_args=args)
                for x in v:
                    x['prop'] = 'C06'
                extra = v
            else:
                reps = w.run_engine(bins['plain'], eng, args=args)
                extra = []
            for pid in props:
                m = merge_reports(reps, pid)
                merged_all['evals'] += m['evals']
                merged_all['distinct'] += m['distinct']
                merged_all['types'] += m['types']
                merged_all['counters']['smoke/%s/%s-cases' % (eng, pid)] = m['evals']
                for k, c in m['inconclusive'].items():
                    merged_all['inconclusive'][pid + '/' + k] = merged_all['inconclusive'].get(pid + '/' + k, 0) + c
                for x in m['violations'] + [e for e in extra if e.get('prop') == pid]:
                    merged_all['violations'].append(dict(prop='C12', key='gen/behaviour/%s/%s' % (pid, x['key']), type=x.get('type', ''), detail='freshly generated type violates %s: %s' % (pid, x.get('detail', '')), replay=x.get('replay')))
                    merged_all['n_violations'] += 1
        add_init_failures(prop, w, merged_all)
        gen_cov = {}
        if tier == 'thorough':
            # statement coverage of the *generated* code reached by the engines (evidence only)
            try:
                pk = [MODULE + '/testpb', MODULE + '/internal/testprotos/test3'] + w.fresh_pkgs
                cb = w.p('zzbin', 'vh-cover')
                w.gobuild(cb, './zzverif/vh', ['-cover', '-coverpkg=' + ','.join(pk)])
                cd = w.p('zzcov-gen')
                os.makedirs(cd, exist_ok=True)
                for eng, n in (('codec', 20), ('wire', 30), ('reflectdiff', 10), ('nilread', 0), ('libdiff', 10), ('alias', 10)):
                    args = ['-n', str(n)] if n else []
                    w.run_engine(cb, eng, shards=8, args=args, env={'GOCOVERDIR': cd})
                pr = subprocess.run(['go', 'tool', 'covdata', 'percent', '-i=' + cd], cwd=w.dir, env=GOENV, stdout=subprocess.PIPE, stderr=subprocess.STDOUT)
                vals = [float(m.group(1)) for m in re.finditer(r'coverage:\s+([0-9.]+)%', pr.stdout.decode())]
                if vals:
                    gen_cov = dict(generated_code_statement_coverage_percent=dict(packages=len(vals), min=min(vals), mean=round(sum(vals) / len(vals), 1), max=max(vals)))
            except Exception as e:
                gen_cov = dict(generated_code_statement_coverage_percent='not collected: %s' % str(e)[:200])
        pct, unc = plugin_coverage(w, w.p('zzreq'))
        extra = gen_summary(w)
        extra.update(gen_cov)
        extra.update(plugin_invocations=nev, template_statement_coverage_percent=pct, uncovered_template_blocks=unc[:200],
                     families=sorted({e['family'] for e in w.events}))
        return finish(prop, tier, seed, t0, merged_all, RULES[prop], ASSUME, 40, 30, extra=extra)


def decode_response(w, respbytes, tag):
    f = w.p('zzout', tag + '.resp')
    open(f, 'wb').write(respbytes)
    q = subprocess.run([w.p('zzbin', 'schemagen'), '-decode', f, '-dump'], stdout=subprocess.PIPE, stderr=subprocess.PIPE, timeout=120)
    if q.returncode != 0:
        raise Broken('cannot decode plugin response %s: %s' % (tag, q.stderr.decode()[-500:]))
    return json.loads(q.stdout)


def check_gen_determinism(prop, tier, seed, repo, keep):
    """C13: the response is a pure function of the request."""
    t0 = time.time()
    import random, socket
    rnd = random.Random(seed)
    with Work(prop, repo, tier, seed, keep) as w:
        sg = w.build_schemagen()
        plugin = w.build_plugin()
        reqdir = w.p('zzreq')
        os.makedirs(reqdir, exist_ok=True)
        run([sg, '-out', reqdir, '-seed', str(seed), '-random', str(3 if tier == 'quick' else 12)], cwd=w.dir, timeout=600)
        sets = [s for s in json.load(open(os.path.join(reqdir, 'manifest.json')))['sets'] if s['expect'] == 'ok']
        w.sets = sets
        repeats = 6 if tier == 'quick' else 30
        viol, samples = [], []
        evals, distinct = 0, set()
        counters = {}

        def runp(req, exe=plugin, env=None, cwd=None):
            p = subprocess.run([exe], input=req, stdout=subprocess.PIPE, stderr=subprocess.PIPE, timeout=300, env=env, cwd=cwd or reqdir)
            if p.returncode != 0:
                raise Broken('plugin exited %d: %s' % (p.returncode, p.stderr.decode()[-800:]))
            return p.stdout

        def files_of(resp, tag):
            d = decode_response(w, resp, tag)
            if d.get('error'):
                raise Broken('plugin error on corpus set: ' + d['error'][:500])
            return {f['name']: f['content'] for f in d['files']}

        def first_diff(a, b):
            la, lb = a.splitlines(), b.splitlines()
            for i, (x, y) in enumerate(zip(la, lb)):
                if x != y:
                    return 'line %d: %r vs %r' % (i + 1, x[:200], y[:200])
            return 'length %d vs %d lines' % (len(la), len(lb))

        # 1. repeated fresh processes
        chosen = [s for s in sets if s['family'] in ('matrix', 'oneofs', 'maps', 'xpkg', 'wkt', 'regen', 'random', 'nest', 'opts', 'names', 'optional')]
        if tier == 'quick':
            chosen = [s for s in chosen if s['name'] in ('matrix-w2', 'matrix-m1', 'oneofs', 'xpkg-all', 'xpkg-import-public', 'xpkg-one-go-package', 'opts-declare', 'wkt', 'regen-regentestpb', 'regen-regentest3', 'nest', 'opts', 'names-var-collide', 'names-wrapper-vs-nested', 'optional3', 'names-fields-methods') or s['family'] == 'random']
        base = {}
        with cf.ThreadPoolExecutor(max_workers=NCPU) as ex:
            jobs = {}
            for s in chosen:
                req = open(os.path.join(reqdir, s['name'] + '.req'), 'rb').read()
                jobs[s['name']] = [ex.submit(runp, req) for _ in range(repeats)]
            for s in chosen:
                outs = [j.result() for j in jobs[s['name']]]
                base[s['name']] = outs[0]
                evals += len(outs)
                distinct.add('repeat|' + s['name'])
                counters['repeat-runs'] = counters.get('repeat-runs', 0) + len(outs)
                for k, o in enumerate(outs[1:], 1):
                    if o != outs[0]:
                        fa, fb = files_of(outs[0], 'a'), files_of(o, 'b')
                        where = [n for n in fa if fa.get(n) != fb.get(n)]
                        viol.append(dict(prop='C13', key='gen/nondeterministic-across-runs', type=s['name'],
                                         detail='request %s: run 0 and run %d of the same request differ in %s: %s' % (s['name'], k, where[:3], first_diff(fa[where[0]], fb.get(where[0], '')) if where else 'response framing'),
                                         replay=dict(engine='gen13', set=s['name'], seed=seed)))
                        break
        # 1b. parameter strings: every spelling of the feature list (and path mode), each repeated in fresh processes
        params = ['features=protoc+fast', 'features=fast+protoc', 'features=all', 'features=fast', 'features=protoc',
                  'paths=source_relative,features=protoc+fast', 'features=protoc+fast,paths=import', 'pool=example.com/x/y.Msg', '']
        prep = 32 if tier == 'quick' else 96
        pjobs = {}
        with cf.ThreadPoolExecutor(max_workers=NCPU) as ex:
            for s in [x for x in chosen if x['name'] in ('xpkg-all', 'oneofs')]:
                for pa in params:
                    q = subprocess.run([sg, '-regenerate', os.path.join(reqdir, s['name'] + '.req'), '-parameter', pa], stdout=subprocess.PIPE, stderr=subprocess.PIPE, timeout=60)
                    if q.returncode != 0:
                        raise Broken('schemagen -regenerate -parameter failed: ' + q.stderr.decode()[-300:])
                    pjobs[(s['name'], pa)] = [ex.submit(runp, q.stdout) for _ in range(prep)]
            for (sn, pa), js in pjobs.items():
                outs = [j.result() for j in js]
                evals += len(outs)
                distinct.add('param|%s|%s' % (sn, pa))
                counters['parameter-variant-runs'] = counters.get('parameter-variant-runs', 0) + len(outs)
                for k, o in enumerate(outs[1:], 1):
                    if o != outs[0]:
                        da, db = decode_response(w, outs[0], 'a'), decode_response(w, o, 'b')
                        fa, fb = {f['name']: f['content'] for f in da['files']}, {f['name']: f['content'] for f in db['files']}
                        where = [n for n in fa if fa.get(n) != fb.get(n)]
                        viol.append(dict(prop='C13', key='gen/nondeterministic-across-runs', type=sn,
                                         detail='request %s with parameter %r: run 0 and run %d differ in %s: %s' % (sn, pa, k, where[:3], first_diff(fa[where[0]], fb.get(where[0], '')) if where else 'response framing / error text'),
                                         replay=dict(engine='gen13', set=sn, parameter=pa, seed=seed)))
                        break
        # 2. permutations and subsets of file_to_generate
        multi = [s for s in chosen if len(s['generate']) > 1]
        for s in multi:
            req = open(os.path.join(reqdir, s['name'] + '.req'), 'rb').read()
            ref = files_of(base[s['name']], 'ref')
            gens = list(s['generate'])
            variants = []
            for _ in range(3):
                g2 = gens[:]
                rnd.shuffle(g2)
                variants.append(('permuted', g2))
            variants.append(('reversed', gens[::-1]))
            for g in gens:
                variants.append(('alone', [g]))
            if len(gens) > 2:
                variants.append(('subset', gens[:2]))
                variants.append(('subset', gens[1:]))
            for kind, g2 in variants:
                q = subprocess.run([sg, '-regenerate', os.path.join(reqdir, s['name'] + '.req'), '-generate', ','.join(g2)], stdout=subprocess.PIPE, stderr=subprocess.PIPE, timeout=60)
                if q.returncode != 0:
                    raise Broken('schemagen -regenerate failed: ' + q.stderr.decode()[-300:])
                out = files_of(runp(q.stdout), 'var')
                evals += 1
                distinct.add('%s|%s|%s' % (kind, s['name'], ','.join(g2)))
                counters['file_to_generate-' + kind] = counters.get('file_to_generate-' + kind, 0) + 1
                for name, content in out.items():
                    if name in ref and ref[name] != content:
                        viol.append(dict(prop='C13', key='gen/content-depends-on-cogenerated-set/' + kind, type=s['name'],
                                         detail='request %s: content of %s differs when file_to_generate is %s (%s) instead of %s: %s' % (s['name'], name, g2, kind, gens, first_diff(ref[name], content)),
                                         replay=dict(engine='gen13', set=s['name'], generate=g2, seed=seed)))
                missing = [n for n in ref if n not in out and any(n.endswith(os.path.basename(x).replace('.proto', '.pulsar.go')) for x in g2)]
                if missing and kind != 'alone' and kind != 'subset':
                    viol.append(dict(prop='C13', key='gen/files-missing-after-permutation', type=s['name'], detail='%s: %s missing with order %s' % (s['name'], missing, g2), replay=dict(engine='gen13', set=s['name'], generate=g2)))
            if len(samples) < 3:
                samples.append(dict(set=s['name'], files_to_generate=gens, variants=[(k, v) for k, v in variants][:6]))
        # 3. environment perturbation
        odd = w.p('zzbin', 'qq-zebra-plugin-7f3a')
        shutil.copy(plugin, odd)
        otherdir = w.p('zz-other-cwd-91c2')
        os.makedirs(otherdir, exist_ok=True)
        perturb = [
            ('cwd', plugin, dict(GOENV), otherdir, ['zz-other-cwd-91c2']),
            ('env', plugin, dict(GOENV, HOME='/nonexistent/home-5d1e', TZ='Pacific/Kiritimati', LANG='tr_TR.UTF-8', LC_ALL='tr_TR.UTF-8', USER='user-ab12cd', LOGNAME='user-ab12cd', HOSTNAME='host-77aa', GOMAXPROCS='1', TMPDIR='/nonexistent/tmp-3c'), reqdir, ['home-5d1e', 'Kiritimati', 'user-ab12cd', 'host-77aa', 'tmp-3c']),
            ('argv0', odd, dict(GOENV, GOMAXPROCS='7'), otherdir, ['qq-zebra-plugin-7f3a', 'zz-other-cwd-91c2']),
            ('empty-env', plugin, {'PATH': '/usr/bin'}, reqdir, []),
        ]
        # "environment saturation": every upper-case identifier that occurs as a string in the plugin binary (whatever
        # variable the program might consult is among them) is set to a marker value, except the Go runtime's knobs
        blob = open(plugin, 'rb').read()
        # (Go lays string constants out back to back: a name may touch lower-case text or digits on either side)
        names = sorted({m.group(0).decode() for m in re.finditer(rb'(?<![A-Z0-9_])[A-Z][A-Z0-9_]{2,40}(?![A-Z0-9_])', blob)})
        names = [n for n in names if not n.startswith(('GO', 'CGO')) and ('_' in n or len(n) >= 5) and n not in ('PATH',)][:30000]
        sat_env = {n: 'zzverif-env-marker-7e1f' for n in names}
        sat_env['PATH'] = '/usr/bin'
        counters['environment-saturation-variables'] = len(names)
        perturb.append(('env-saturation', plugin, sat_env, reqdir, ['zzverif-env-marker-7e1f']))
        hostname = socket.gethostname()
        for s in chosen[:8] if tier == 'quick' else chosen:
            req = open(os.path.join(reqdir, s['name'] + '.req'), 'rb').read()
            for name, exe, env, cwd, needles in perturb:
                try:
                    out = runp(req, exe=exe, env=env, cwd=cwd)
                except Broken as e:
                    # the plugin works on this request in the plain environment: failing under the perturbation is a difference
                    viol.append(dict(prop='C13', key='gen/environment-dependent/' + name, type=s['name'],
                                     detail='request %s: the plugin fails under perturbation %r although it succeeds without it: %s' % (s['name'], name, str(e)[:600]),
                                     replay=dict(engine='gen13', set=s['name'], perturbation=name, seed=seed)))
                    evals += 1
                    continue
                evals += 1
                distinct.add('perturb|%s|%s' % (name, s['name']))
                counters['perturbation-' + name] = counters.get('perturbation-' + name, 0) + 1
                if out != base[s['name']]:
                    fa, db = files_of(base[s['name']], 'a'), decode_response(w, out, 'b')
                    fb = {f['name']: f['content'] for f in db.get('files') or []}
                    where = [n for n in fa if fa.get(n) != fb.get(n)]
                    viol.append(dict(prop='C13', key='gen/environment-dependent/' + name, type=s['name'],
                                     detail='request %s: output differs under perturbation %r: %s' % (s['name'], name, first_diff(fa[where[0]], fb.get(where[0], '')) if where else 'framing'),
                                     replay=dict(engine='gen13', set=s['name'], perturbation=name, seed=seed)))
                for nd in needles + [hostname]:
                    if nd and nd.encode() in out:
                        viol.append(dict(prop='C13', key='gen/environment-text-in-output', type=s['name'], detail='request %s: output contains %r' % (s['name'], nd), replay=dict(engine='gen13', set=s['name'], perturbation=name)))
            # 4. scan for timestamps / absolute paths
            txt = '\n'.join(files_of(base[s['name']], 'scan').values())
            for rx, what in ((r'\b20[0-9][0-9]-[01][0-9]-[0-3][0-9]\b', 'date'), (r'\b[0-2][0-9]:[0-5][0-9]:[0-5][0-9]\b', 'time of day'), (r'(?<![\w.])/(root|home|tmp|var|usr|verif|repo)/[\w./-]+', 'absolute path'), (r'go1\.[0-9]+(\.[0-9]+)?', 'toolchain version')):
                m = re.search(rx, txt)
                if m:
                    viol.append(dict(prop='C13', key='gen/%s-in-output' % what.replace(' ', '-'), type=s['name'], detail='request %s: generated text contains a %s: %r' % (s['name'], what, m.group(0)), replay=dict(engine='gen13', set=s['name'])))
        # 5. hermeticity observed with strace
        st_info = {}
        if shutil.which('strace'):
            s0 = chosen[0]
            req = open(os.path.join(reqdir, s0['name'] + '.req'), 'rb').read()
            lg = w.p('zzout', 'strace.log')
            p = subprocess.run(['strace', '-f', '-qq', '-e', 'trace=openat,open,creat,connect,socket,execve,unlink,rename,mkdir,bind,sendto', '-o', lg, plugin], input=req, stdout=subprocess.PIPE, stderr=subprocess.PIPE, timeout=300, cwd=reqdir)
            evals += 1
            distinct.add('strace')
            opened, bad = set(), []
            allow = re.compile(r'^(/sys/kernel/mm/transparent_hugepage/.*|/proc/self/.*|/proc/sys/.*|/etc/localtime|/dev/(null|urandom)|/etc/ld\.so\.cache|/lib/.*|/usr/lib/.*|/lib64/.*|/etc/nsswitch\.conf|/etc/resolv\.conf|/sys/fs/cgroup/.*|/proc/stat|/proc/cpuinfo|/proc/meminfo)$')
            if os.path.exists(lg):
                nexec = 0
                for line in open(lg, errors='replace'):
                    m = re.search(r'\b(openat|open|creat|unlink|rename|mkdir)\((?:AT_FDCWD, )?"([^"]*)"(.*)', line)
                    if m:
                        opened.add(m.group(2))
                        wr = 'O_WRONLY' in m.group(3) or 'O_RDWR' in m.group(3) or 'O_CREAT' in m.group(3) or m.group(1) in ('creat', 'unlink', 'rename', 'mkdir')
                        if wr and m.group(2) != '/dev/null':
                            bad.append('writes/creates ' + m.group(2))
                        elif not allow.match(m.group(2)) and ' = -1 ' not in line and os.path.realpath(m.group(2)) != os.path.realpath(plugin):
                            bad.append('opens ' + m.group(2))
                    if re.search(r'\b(connect|bind|sendto)\(', line) or (re.search(r'\bsocket\(', line) and 'AF_UNIX' not in line):
                        bad.append('network syscall: ' + line.strip()[:120])
                    if 'execve(' in line:
                        nexec += 1
                if nexec > 1:
                    bad.append('%d execve calls' % nexec)
                st_info = dict(strace_paths_opened=sorted(opened), strace_exit=p.returncode)
                for b in bad[:5]:
                    viol.append(dict(prop='C13', key='gen/not-hermetic', type=s0['name'], detail='plugin ' + b, replay=dict(engine='gen13', set=s0['name'])))
            else:
                st_info = dict(strace='no log produced')
        else:
            st_info = dict(strace='not available')
        merged = dict(evals=evals, distinct=len(distinct), violations=viol, n_violations=len(viol), inconclusive={}, counters=counters, samples=samples, types=[], notes=[])
        extra = dict(requests=[s['name'] for s in chosen], repeats_per_request=repeats, **st_info)
        return finish(prop, tier, seed, t0, merged, RULES[prop], ASSUME_GEN, 40, 20, extra=extra)


ASSUME_GEN = [
    'schemas are built programmatically (protoc is not installed) and validated with protodesc; the plugin is driven over stdin/stdout exactly as protoc would',
    'environment independence covers the perturbed variables (cwd, HOME, TZ, LANG, USER, HOSTNAME, TMPDIR, GOMAXPROCS, argv[0] name and path, empty environment) only',
    'sampling of schemas: held on the requests observed only',
]


def gen_summary(w):
    if not w.events:
        return {}
    return dict(fresh_packages=len(w.fresh_pkgs), schema_sets=len(w.events),
                schema_sets_failed=[e['set'] for e in w.events if e['expect'] == 'ok' and (e.get('status') != 'ok' or any(v != 'ok' for v in (e.get('compile') or {}).values()))])


CHECKS = {
    'C01': check_engine, 'C02': check_engine, 'C04': check_engine, 'C05': check_engine,
    'C03': check_engine, 'C14': check_engine,
    'C06': check_total, 'C07': check_engine,
    'C08': check_engine, 'C09': check_engine, 'C10': check_engine, 'C11': check_conc, 'C12': check_gen_total, 'C13': check_gen_determinism, 'C15': check_isolated_engine, 'C16': check_engine, 'C17': check_engine, 'C18': check_isolated_engine, 'C19': check_engine,
}


def main(argv):
    import argparse
    ap = argparse.ArgumentParser()
    sub = ap.add_subparsers(dest='cmd')
    c = sub.add_parser('check')
    c.add_argument('id')
    c.add_argument('--tier', default=os.environ.get('VERIF_TIER', 'quick'))
    c.add_argument('--repo', default='/repo')
    c.add_argument('--keep', action='store_true')
    wm = sub.add_parser('warm')
    wm.add_argument('--repo', default='/repo')
    rp = sub.add_parser('replay')
    rp.add_argument('file')
    rp.add_argument('--repo', default='/repo')
    a = ap.parse_args(argv)
    if a.cmd == 'warm':
        # build everything once so that the Go build cache is hot (offline, from files on disk only)
        try:
            with Work('warm', a.repo, 'quick', 1) as w:
                w.prepare_harness(fresh=True, variants=('plain', 'race'))
                w.build_plugin(cover=True)
        except Broken as e:
            print('warm: %s' % e)
            return 1
        return 0
    if a.cmd == 'replay':
        v = json.load(open(a.file))
        r = v.get('replay') or {}
        eng, typ, idx = r.get('engine'), r.get('type'), r.get('index')
        if not eng or typ is None:
            print('replay file has no engine/type'); return 2
        with Work('replay', a.repo, 'quick', int(r.get('seed', 1))) as w:
            bins = w.prepare_harness(fresh=True, variants=('race',) if eng == 'conc' else ('plain',))
            b = list(bins.values())[0]
            args = ['-types', '^' + re.escape(typ) + '$']
            if idx is not None:
                args += ['-arg', 'only=%d' % idx]
            if r.get('depths'):
                args = ['-arg', 'depths=' + r['depths'], '-shard', r.get('shard', '0/1')]
            reps = w.run_engine(b, eng, shards=1, args=args)
            n = 0
            for rep in reps:
                for pid, p in (rep.get('props') or {}).items():
                    for x in p.get('violations') or []:
                        n += 1
                        print('VIOLATION property=%s replay=%s' % (pid, a.file))
                        print('  key=%s type=%s\n  %s' % (x['key'], x['type'], x['detail'][:3000]))
            for c in w.engine_crashes:
                n += 1
                print('VIOLATION property=%s replay=%s' % (v.get('prop', c['case']['prop']), a.file))
                print('  key=%s/fatal-crash type=%s\n  %s\n  %s' % (c['case']['engine'], c['case']['type'], c['fatal'], c['log'][:2000]))
            if n == 0:
                print('replay: no violation reproduced on the current tree')
            return 1 if n else 0
    if a.cmd == 'check':
        seed = int(os.environ.get('VERIF_SEED', '1') or 1)
        try:
            return CHECKS[a.id](a.id, a.tier, seed, a.repo, a.keep)
        except Broken as e:
            print('BROKEN: check %s could not run: %s' % (a.id, e))
            return 2
    ap.print_help()
    return 2
